// Package model holds the executable oracles: an independent big-endian
// parser/encoder of the Whisper format, the ring-addressing model, the
// aggregation/propagation oracle, the fetch-shape oracle and the layout
// validity predicate. Everything here is written from the statements of the
// properties, in plain 64-bit integer arithmetic, without importing the
// code under test.
package model

import (
	"encoding/binary"
	"errors"
	"fmt"
	"math"
	"sort"
)

// Arch is one archive of a layout.
type Arch struct {
	Step   uint32 `json:"step"`
	Points uint32 `json:"points"`
}

// Ret is the retention in seconds.
func (a Arch) Ret() int64 { return int64(a.Step) * int64(a.Points) }

// Layout is a whole file layout.
type Layout struct {
	Archs  []Arch  `json:"archs"`
	Method int     `json:"method"` // 1..6
	Xff    float32 `json:"xff"`
}

func (l Layout) String() string {
	s := ""
	for i, a := range l.Archs {
		if i > 0 {
			s += ","
		}
		s += fmt.Sprintf("%ds:%ds", a.Step, a.Ret())
	}
	return fmt.Sprintf("%s m=%d xff=%v", s, l.Method, l.Xff)
}

// RetentionString renders the layout in the "1s:10s,..." syntax (seconds only).
func (l Layout) RetentionString() string {
	s := ""
	for i, a := range l.Archs {
		if i > 0 {
			s += ","
		}
		s += fmt.Sprintf("%ds:%ds", a.Step, a.Ret())
	}
	return s
}

// HeaderSize is 16 + 12k.
func (l Layout) HeaderSize() int64 { return 16 + 12*int64(len(l.Archs)) }

// Offsets returns the byte offset of each archive (64-bit, no wrap).
func (l Layout) Offsets() []int64 {
	offs := make([]int64, len(l.Archs))
	off := l.HeaderSize()
	for i, a := range l.Archs {
		offs[i] = off
		off += 12 * int64(a.Points)
	}
	return offs
}

// FileSize is header + 12 x total points.
func (l Layout) FileSize() int64 {
	sz := l.HeaderSize()
	for _, a := range l.Archs {
		sz += 12 * int64(a.Points)
	}
	return sz
}

// MaxRet is the last archive's retention.
func (l Layout) MaxRet() int64 { return l.Archs[len(l.Archs)-1].Ret() }

// MaxStep is the coarsest step.
func (l Layout) MaxStep() int64 { return int64(l.Archs[len(l.Archs)-1].Step) }

// MethodNames maps method numbers to names.
var MethodNames = map[int]string{1: "average", 2: "sum", 3: "last", 4: "max", 5: "min", 6: "first", 7: "mix", 8: "percentile"}

// ---------------------------------------------------------------------------
// raw state

// Slot is a physical 12-byte slot.
type Slot struct {
	T    uint32 `json:"t"`
	Bits uint64 `json:"bits"`
}

// Val returns the float value.
func (s Slot) Val() float64 { return math.Float64frombits(s.Bits) }

// Raw is the physical content of all archives.
type Raw [][]Slot

// Clone copies r.
func (r Raw) Clone() Raw {
	o := make(Raw, len(r))
	for i := range r {
		o[i] = append([]Slot(nil), r[i]...)
	}
	return o
}

// EqualSlots compares two archives bit for bit; it returns the first differing index or -1.
func EqualSlots(a, b []Slot) int {
	if len(a) != len(b) {
		return 0
	}
	for i := range a {
		if a[i] != b[i] {
			return i
		}
	}
	return -1
}

// ---------------------------------------------------------------------------
// independent format parser / encoder

// ParsedHeader is what the bytes of a header say.
type ParsedHeader struct {
	Method   uint32
	MaxRet   uint32
	XffBits  uint32
	Count    uint32
	Offsets  []uint32
	Steps    []uint32
	Points   []uint32
	HeaderSz int64
}

// ParseHeader decodes the header at the start of b.
func ParseHeader(b []byte) (*ParsedHeader, error) {
	if len(b) < 16 {
		return nil, errors.New("short metadata")
	}
	h := &ParsedHeader{
		Method:  binary.BigEndian.Uint32(b[0:]),
		MaxRet:  binary.BigEndian.Uint32(b[4:]),
		XffBits: binary.BigEndian.Uint32(b[8:]),
		Count:   binary.BigEndian.Uint32(b[12:]),
	}
	need := 16 + 12*int64(h.Count)
	if int64(len(b)) < need {
		return nil, fmt.Errorf("short archive info: need %d have %d", need, len(b))
	}
	for i := 0; i < int(h.Count); i++ {
		o := 16 + 12*i
		h.Offsets = append(h.Offsets, binary.BigEndian.Uint32(b[o:]))
		h.Steps = append(h.Steps, binary.BigEndian.Uint32(b[o+4:]))
		h.Points = append(h.Points, binary.BigEndian.Uint32(b[o+8:]))
	}
	h.HeaderSz = need
	return h, nil
}

// Layout converts a parsed header to a Layout.
func (h *ParsedHeader) Layout() Layout {
	l := Layout{Method: int(h.Method), Xff: math.Float32frombits(h.XffBits)}
	for i := range h.Steps {
		l.Archs = append(l.Archs, Arch{h.Steps[i], h.Points[i]})
	}
	return l
}

// ParseFile decodes a whole file image: header and every physical slot.
func ParseFile(b []byte) (*ParsedHeader, Raw, error) {
	h, err := ParseHeader(b)
	if err != nil {
		return nil, nil, err
	}
	raw := make(Raw, h.Count)
	for i := 0; i < int(h.Count); i++ {
		off := int64(h.Offsets[i])
		end := off + 12*int64(h.Points[i])
		if end > int64(len(b)) {
			return h, nil, fmt.Errorf("archive %d [%d,%d) exceeds file length %d", i, off, end, len(b))
		}
		s := make([]Slot, h.Points[i])
		for j := range s {
			p := off + 12*int64(j)
			s[j] = Slot{binary.BigEndian.Uint32(b[p:]), binary.BigEndian.Uint64(b[p+4:])}
		}
		raw[i] = s
	}
	return h, raw, nil
}

// EncodeHeaderRaw encodes arbitrary header fields (used to craft files and messages).
func EncodeHeaderRaw(method, maxRet, xffBits, count uint32, offs, steps, points []uint32) []byte {
	b := make([]byte, 16+12*len(steps))
	binary.BigEndian.PutUint32(b[0:], method)
	binary.BigEndian.PutUint32(b[4:], maxRet)
	binary.BigEndian.PutUint32(b[8:], xffBits)
	binary.BigEndian.PutUint32(b[12:], count)
	for i := range steps {
		o := 16 + 12*i
		binary.BigEndian.PutUint32(b[o:], offs[i])
		binary.BigEndian.PutUint32(b[o+4:], steps[i])
		binary.BigEndian.PutUint32(b[o+8:], points[i])
	}
	return b
}

// EncodeHeader encodes the header the format prescribes for l (fields truncated to 32 bit).
func EncodeHeader(l Layout) []byte {
	offs := l.Offsets()
	var o32, st, pt []uint32
	for i, a := range l.Archs {
		o32 = append(o32, uint32(offs[i]))
		st = append(st, a.Step)
		pt = append(pt, a.Points)
	}
	return EncodeHeaderRaw(uint32(l.Method), uint32(l.MaxRet()), math.Float32bits(l.Xff), uint32(len(l.Archs)), o32, st, pt)
}

// EncodeFile encodes a full image for l with the given raw content (nil = all zero).
func EncodeFile(l Layout, raw Raw) []byte {
	b := make([]byte, l.FileSize())
	copy(b, EncodeHeader(l))
	offs := l.Offsets()
	for i := range raw {
		for j, s := range raw[i] {
			p := offs[i] + 12*int64(j)
			binary.BigEndian.PutUint32(b[p:], s.T)
			binary.BigEndian.PutUint64(b[p+4:], s.Bits)
		}
	}
	return b
}

// ---------------------------------------------------------------------------
// ring addressing

// FloorMod is the mathematical modulo (result in [0,m)).
func FloorMod(x, m int64) int64 {
	r := x % m
	if r < 0 {
		r += m
	}
	return r
}

// AlignDown is floor(t/step)*step.
func AlignDown(t int64, step uint32) int64 { return t - FloorMod(t, int64(step)) }

// AlignNext is the step-aligned instant strictly after t.
func AlignNext(t int64, step uint32) int64 { return AlignDown(t, step) + int64(step) }

// SlotIndex is the physical slot of interval I in a ring whose slot 0 holds base.
// A never-written ring (base 0) maps everything to slot 0.
func SlotIndex(base uint32, interval int64, a Arch) int {
	if base == 0 {
		return 0
	}
	d := (interval - int64(base)) / int64(a.Step) // both multiples of step in practice
	// floor division for negative non-multiples is irrelevant: intervals are aligned
	if (interval-int64(base))%int64(a.Step) != 0 && interval < int64(base) {
		d--
	}
	return int(FloorMod(d, int64(a.Points)))
}

// RingWrite stores (interval,bits) in ring (mutating it) following the ring rule.
func RingWrite(ring []Slot, a Arch, interval int64, bits uint64) int {
	idx := SlotIndex(ring[0].T, interval, a)
	ring[idx] = Slot{uint32(interval), bits}
	return idx
}

// RingLookup returns the bits stored for exactly that interval, if it occupies its slot.
func RingLookup(ring []Slot, a Arch, interval int64) (uint64, bool) {
	if ring[0].T == 0 {
		return 0, false
	}
	idx := SlotIndex(ring[0].T, interval, a)
	if int64(ring[idx].T) == interval {
		return ring[idx].Bits, true
	}
	return 0, false
}

// ---------------------------------------------------------------------------
// fetch shape (C04)

// Shape is the contractually determined shape of a fetch result.
type Shape struct {
	Err    bool  `json:"err"`
	Absent bool  `json:"absent"`
	Arch   int   `json:"arch"`
	From   int64 `json:"from"`
	Until  int64 `json:"until"`
	Step   int64 `json:"step"`
	N      int64 `json:"n"`
}

// BestArchive is the finest archive whose retention reaches back to from (last if none).
func BestArchive(l Layout, from, now int64) int {
	age := now - from
	for i, a := range l.Archs {
		if a.Ret() >= age {
			return i
		}
	}
	return len(l.Archs) - 1
}

// FetchShape computes the shape for (layout, archive id, window, clock). id -1 = best.
func FetchShape(l Layout, id int, from, until, now int64) Shape {
	if from > until {
		return Shape{Err: true}
	}
	if id != -1 && (id < 0 || id >= len(l.Archs)) {
		return Shape{Err: true}
	}
	if id == -1 {
		id = BestArchive(l, from, now)
	}
	a := l.Archs[id]
	oldest := now - a.Ret()
	if from > now || until < oldest {
		return Shape{Absent: true, Arch: id}
	}
	if from < oldest {
		from = oldest
	}
	if until > now {
		until = now
	}
	f := AlignNext(from, a.Step)
	u := AlignNext(until, a.Step)
	if f == u {
		u += int64(a.Step)
	}
	return Shape{Arch: id, From: f, Until: u, Step: int64(a.Step), N: (u - f) / int64(a.Step)}
}

// NaNBits is the canonical quiet NaN the library produces for empty slots.
var NaNBits = math.Float64bits(math.NaN())

// ExpectFetch computes the values a fetch of shape sh must return given the ring.
// ok[i] false means NaN expected.
func ExpectFetch(ring []Slot, a Arch, sh Shape) (bits []uint64, ok []bool) {
	bits = make([]uint64, sh.N)
	ok = make([]bool, sh.N)
	for i := int64(0); i < sh.N; i++ {
		b, found := RingLookup(ring, a, sh.From+i*sh.Step)
		bits[i], ok[i] = b, found
	}
	return
}

// ---------------------------------------------------------------------------
// writes (C01/C03)

// Pt is a supplied point.
type Pt struct {
	T uint32  `json:"t"`
	V float64 `json:"v"`
}

// PtBits is a supplied point with exact bits (for NaN payload transparency).
type PtBits struct {
	T    uint32 `json:"t"`
	Bits uint64 `json:"bits"`
}

// SortStable orders points by time, preserving supply order among equal times.
func SortStable(pts []PtBits) []PtBits {
	o := append([]PtBits(nil), pts...)
	sort.SliceStable(o, func(i, j int) bool { return o[i].T < o[j].T })
	return o
}

// RouteBatch partitions a batch as the statement of C03 prescribes.
// named >= 0: exactly the points younger than that archive's retention go to it.
// named == -1: every point goes to the finest archive whose retention exceeds its age.
// Result: per archive, the points in (time, supply index) order.
func RouteBatch(l Layout, pts []PtBits, named int, now int64) [][]PtBits {
	out := make([][]PtBits, len(l.Archs))
	sorted := SortStable(pts)
	for _, p := range sorted {
		age := now - int64(p.T)
		if named >= 0 {
			if age < l.Archs[named].Ret() {
				out[named] = append(out[named], p)
			}
			continue
		}
		for i, a := range l.Archs {
			if age < a.Ret() {
				out[i] = append(out[i], p)
				break
			}
		}
	}
	return out
}

// ApplyDirect applies the points (already routed to this archive, in time order)
// to the ring and returns the distinct aligned intervals written, in order.
func ApplyDirect(ring []Slot, a Arch, pts []PtBits) []int64 {
	var touched []int64
	for _, p := range pts {
		iv := AlignDown(int64(p.T), a.Step)
		RingWrite(ring, a, iv, p.Bits)
		if len(touched) == 0 || touched[len(touched)-1] != iv {
			touched = append(touched, iv)
		}
	}
	return touched
}

// ---------------------------------------------------------------------------
// aggregation / propagation (C02)

// Aggregate folds the known values in time order.
func Aggregate(method int, vals []float64) float64 {
	switch method {
	case 1: // average
		s := 0.0
		for _, v := range vals {
			s += v
		}
		return s / float64(len(vals))
	case 2:
		s := 0.0
		for _, v := range vals {
			s += v
		}
		return s
	case 3:
		return vals[len(vals)-1]
	case 4:
		m := vals[0]
		for _, v := range vals {
			if v > m {
				m = v
			}
		}
		return m
	case 5:
		m := vals[0]
		for _, v := range vals {
			if v < m {
				m = v
			}
		}
		return m
	case 6:
		return vals[0]
	}
	panic("bad method")
}

// PropagateInfo reports what the oracle did (for coverage counters).
type PropagateInfo struct {
	Stored      int
	SkippedXff  int
	SkippedZero int
	DontCare    int // float32 quotient and exact rational disagree about >= xff
	Levels      int // deepest level that stored something (relative)
}

// Propagate recomputes coarser archives after direct writes to archive src whose
// distinct aligned intervals (in order) are touched. raw is mutated.
// Slots judged "don't care" (rounding band of the xff test) are listed in dontCare
// as (archive, interval) and are left as in raw (caller resynchronises them).
func Propagate(l Layout, raw Raw, src int, touched []int64, info *PropagateInfo) (dontCare [][2]int64) {
	// intervals of the next level covering the written points
	dedupAlign := func(ts []int64, step uint32) []int64 {
		var o []int64
		for _, t := range ts {
			a := AlignDown(t, step)
			if len(o) == 0 || o[len(o)-1] != a {
				o = append(o, a)
			}
		}
		return o
	}
	if src+1 >= len(l.Archs) {
		return nil
	}
	ts := dedupAlign(touched, l.Archs[src+1].Step)
	for low := src + 1; low < len(l.Archs) && len(ts) > 0; low++ {
		hi := low - 1
		ah, al := l.Archs[hi], l.Archs[low]
		ratio := int64(al.Step / ah.Step)
		var stored []int64
		for _, t := range ts {
			var known []float64
			for k := int64(0); k < ratio; k++ {
				if b, ok := RingLookup(raw[hi], ah, t+k*int64(ah.Step)); ok {
					known = append(known, math.Float64frombits(b))
				}
			}
			if len(known) == 0 {
				if info != nil {
					info.SkippedZero++
				}
				continue
			}
			q32 := float32(len(known)) / float32(ratio)
			pass32 := !(q32 < l.Xff)
			// exact rational comparison known/ratio >= xff
			exact := float64(len(known)) >= float64(l.Xff)*float64(ratio) // float32->float64 exact, product exact enough for small ints
			if pass32 != exact {
				if info != nil {
					info.DontCare++
				}
				dontCare = append(dontCare, [2]int64{int64(low), t})
				// follow the float32 quotient the property anchors
			}
			if !pass32 {
				if info != nil {
					info.SkippedXff++
				}
				continue
			}
			v := Aggregate(l.Method, known)
			RingWrite(raw[low], al, t, math.Float64bits(v))
			stored = append(stored, t)
			if info != nil {
				info.Stored++
				if low-src > info.Levels {
					info.Levels = low - src
				}
			}
		}
		if low+1 < len(l.Archs) {
			ts = dedupAlign(stored, l.Archs[low+1].Step)
		} else {
			ts = nil
		}
	}
	return dontCare
}

// ---------------------------------------------------------------------------
// layout validity (C07)

// ValidVerdict is the three-valued verdict of the validity predicate.
type ValidVerdict int

const (
	Invalid ValidVerdict = iota
	Valid
	DontCare // in a band the statement does not decide (see reason)
)

// ValidLayout decides whether an archive list is well-formed per C07.
func ValidLayout(archs []Arch) (ValidVerdict, string) {
	if len(archs) == 0 {
		return Invalid, "empty"
	}
	off := int64(16 + 12*len(archs))
	band := false
	for i, a := range archs {
		if a.Step == 0 || a.Step > math.MaxInt32 {
			return Invalid, fmt.Sprintf("archive %d: step not positive (as int32)", i)
		}
		if a.Points == 0 {
			return Invalid, fmt.Sprintf("archive %d: zero points", i)
		}
		if a.Ret() > math.MaxInt32 {
			return Invalid, fmt.Sprintf("archive %d: retention exceeds 31 bits", i)
		}
		if off > math.MaxUint32 {
			return Invalid, fmt.Sprintf("archive %d: offset exceeds 32 bits", i)
		}
		off += 12 * int64(a.Points)
		if i+1 < len(archs) {
			n := archs[i+1]
			if !(a.Step < n.Step) {
				return Invalid, fmt.Sprintf("archive %d/%d: step not strictly finer", i, i+1)
			}
			if n.Step%a.Step != 0 {
				return Invalid, fmt.Sprintf("archive %d/%d: step does not divide", i, i+1)
			}
			if !(a.Ret() < n.Ret()) {
				return Invalid, fmt.Sprintf("archive %d/%d: retention not strictly shorter", i, i+1)
			}
			if int64(a.Points) < int64(n.Step/a.Step) {
				return Invalid, fmt.Sprintf("archive %d/%d: too few points to consolidate", i, i+1)
			}
		}
	}
	// off is now the file size. Slot offsets are computed in the format's 32-bit offset arithmetic, so the
	// last slot must END within 2^32 bytes; a file of exactly 2^32 bytes still has addressable slots but a
	// size that needs 33 bits ("every size ... representable"): that single value is left undecided.
	if off > 1<<32 {
		return Invalid, "file size exceeds 2^32 bytes: the last slots are not addressable with 32-bit offsets"
	}
	if off == 1<<32 {
		band = true
	}
	if band {
		return DontCare, "file size is exactly 2^32 bytes"
	}
	return Valid, ""
}

// ValidMethod: one of the six storable methods.
func ValidMethod(m int64) bool { return m >= 1 && m <= 6 }

// ValidXff: a number within [0,1].
func ValidXff(x float32) bool { return x >= 0 && x <= 1 }

// EncodeHeader2 encodes the header the format prescribes for arbitrary (possibly
// invalid) fields: offsets and max retention are the low 32 bits of their true values.
func EncodeHeader2(method int64, xffBits uint32, archs []Arch) []byte {
	off := int64(16 + 12*len(archs))
	var o32, st, pt []uint32
	var maxRet int64
	for _, a := range archs {
		o32 = append(o32, uint32(off))
		st = append(st, a.Step)
		pt = append(pt, a.Points)
		off += 12 * int64(a.Points)
		maxRet = a.Ret()
	}
	return EncodeHeaderRaw(uint32(method), uint32(maxRet), xffBits, uint32(len(archs)), o32, st, pt)
}
