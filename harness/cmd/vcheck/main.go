// vcheck is the single driver binary of the whispertool runtime monitors.
//
//	vcheck run <Cxx> <quick|thorough>     parent: plan, spawn workers, judge, write evidence
//	vcheck worker ...                     worker process (internal)
//	vcheck replay <file>                  re-execute a recorded case
//	vcheck child ...                      auxiliary child roles used by some properties
package main

import (
	"fmt"
	"os"
	"strconv"

	"verifharness/fw"
	"verifharness/props"
)

func main() {
	if len(os.Args) < 2 {
		fmt.Fprintln(os.Stderr, "usage: vcheck run <id> <tier> | replay <file> | list")
		os.Exit(2)
	}
	switch os.Args[1] {
	case "list":
		for _, id := range fw.IDs() {
			fmt.Println(id)
		}
	case "run":
		if len(os.Args) < 4 {
			fmt.Fprintln(os.Stderr, "usage: vcheck run <id> <tier>")
			os.Exit(2)
		}
		seed := int64(1)
		if s := os.Getenv("VERIF_SEED"); s != "" {
			if v, err := strconv.ParseInt(s, 10, 64); err == nil {
				seed = v
			}
		}
		os.Exit(fw.RunParent(os.Args[2], os.Args[3], seed))
	case "worker":
		os.Exit(fw.WorkerMain(os.Args[2:]))
	case "replay":
		os.Exit(fw.ReplayMain(os.Args[2]))
	case "child":
		os.Exit(props.ChildMain(os.Args[2:]))
	default:
		fmt.Fprintln(os.Stderr, "unknown subcommand", os.Args[1])
		os.Exit(2)
	}
}
