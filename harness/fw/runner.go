package fw

import (
	"bufio"
	"bytes"
	"encoding/json"
	"flag"
	"fmt"
	"io/ioutil"
	"os"
	"os/exec"
	"path/filepath"
	"regexp"
	"runtime"
	"sort"
	"strconv"
	"strings"
	"sync"
	"syscall"
	"time"
)

var registry = map[string]Property{}

// Register makes a property known to the driver.
func Register(p Property) { registry[p.Meta().ID] = p }

// Lookup returns a registered property.
func Lookup(id string) Property { return registry[id] }

// IDs returns all registered ids.
func IDs() []string {
	var ids []string
	for id := range registry {
		ids = append(ids, id)
	}
	sort.Strings(ids)
	return ids
}

type logLine struct {
	Ev  string      `json:"ev"`
	I   int         `json:"i"`
	Res *CaseResult `json:"res,omitempty"`
}

// VerifDir is /verif (or $VERIF_DIR).
func VerifDir() string {
	if d := os.Getenv("VERIF_DIR"); d != "" {
		return d
	}
	return "/verif"
}

// OutDir is where evidence and replay files go (VerifDir unless $VERIF_OUT is set).
func OutDir() string {
	if d := os.Getenv("VERIF_OUT"); d != "" {
		return d
	}
	return VerifDir()
}

// ---------------------------------------------------------------------------
// worker

// WorkerMain runs cases [from,to) in this process.
func WorkerMain(args []string) int {
	fs := flag.NewFlagSet("worker", flag.ExitOnError)
	prop := fs.String("prop", "", "")
	tier := fs.String("tier", "quick", "")
	seed := fs.Int64("seed", 1, "")
	from := fs.Int("from", 0, "")
	to := fs.Int("to", 0, "")
	logPath := fs.String("log", "", "")
	tmp := fs.String("tmp", "", "")
	build := fs.String("build", "", "")
	replay := fs.Bool("replay", false, "")
	fs.Parse(args)

	p := Lookup(*prop)
	if p == nil {
		fmt.Fprintf(os.Stderr, "unknown property %q\n", *prop)
		return 2
	}
	lf, err := os.OpenFile(*logPath, os.O_WRONLY|os.O_CREATE|os.O_APPEND, 0644)
	if err != nil {
		fmt.Fprintln(os.Stderr, err)
		return 2
	}
	defer lf.Close()
	env := &WorkerEnv{Prop: *prop, Tier: *tier, Seed: *seed, Tmp: *tmp, BuildDir: *build, State: map[string]interface{}{}}
	if err := os.MkdirAll(env.Tmp, 0755); err != nil {
		fmt.Fprintln(os.Stderr, err)
		return 2
	}
	if ws, ok := p.(WorkerSetup); ok {
		td, err := ws.SetupWorker(env)
		if err != nil {
			fmt.Fprintf(os.Stderr, "worker setup failed: %v\n", err)
			return 4
		}
		if td != nil {
			defer td()
		}
	}
	writeLine := func(l logLine) {
		b, _ := json.Marshal(l)
		b = append(b, '\n')
		lf.Write(b)
	}
	for i := *from; i < *to; i++ {
		writeLine(logLine{Ev: "begin", I: i})
		res := runCase(p, env, i, *replay)
		writeLine(logLine{Ev: "end", I: i, Res: res})
	}
	return 0
}

// ---------------------------------------------------------------------------
// parent

type knownFinding struct {
	Property string `json:"property"`
	Status   string `json:"status"` // known | fixed
	Key      string `json:"key"`
	Commit   string `json:"commit,omitempty"`
	What     string `json:"what"`
}

type knownFile struct {
	Findings []knownFinding `json:"findings"`
}

func loadKnown() []knownFinding {
	b, err := ioutil.ReadFile(filepath.Join(VerifDir(), "known_findings.json"))
	if err != nil {
		return nil
	}
	var kf knownFile
	if err := json.Unmarshal(b, &kf); err != nil {
		fmt.Fprintf(os.Stderr, "known_findings.json: %v\n", err)
		return nil
	}
	return kf.Findings
}

type chunk struct{ from, to int }

type aggregate struct {
	mu           sync.Mutex
	done         int
	counts       map[string]int64
	nt           map[string]bool
	samples      map[int]interface{}
	violations   []foundViolation
	inconclusive []string
	raceBlocks   int
	crashes      int
	workers      int
}

type foundViolation struct {
	Index int
	V     Violation
}

// RunParent plans, executes and judges a whole check. It returns the process exit code.
func RunParent(id, tier string, seed int64) int {
	p := Lookup(id)
	if p == nil {
		fmt.Fprintf(os.Stderr, "unknown property %q (known: %v)\n", id, IDs())
		return 2
	}
	meta := p.Meta()
	start := time.Now()
	n := p.Cases(tier)
	workers := meta.Workers
	if workers <= 0 {
		workers = runtime.NumCPU()
	}
	if workers > n {
		workers = n
	}
	if workers < 1 {
		workers = 1
	}
	csize := meta.ChunkSize
	if csize <= 0 {
		csize = (n + workers*4 - 1) / (workers * 4)
		if csize < 1 {
			csize = 1
		}
	}
	buildDir := os.Getenv("VERIF_BUILD")
	if buildDir == "" {
		buildDir = filepath.Join(VerifDir(), ".build")
	}
	exe := filepath.Join(buildDir, "vcheck")
	if meta.Race {
		exe = filepath.Join(buildDir, "vcheck-race")
	}
	tmpRoot, err := ioutil.TempDir(os.Getenv("VERIF_TMP"), "vcheck-"+id+"-")
	if err != nil {
		fmt.Fprintln(os.Stderr, err)
		return 2
	}
	defer os.RemoveAll(tmpRoot)

	var queue []chunk
	for a := 0; a < n; a += csize {
		b := a + csize
		if b > n {
			b = n
		}
		queue = append(queue, chunk{a, b})
	}
	agg := &aggregate{counts: map[string]int64{}, nt: map[string]bool{}, samples: map[int]interface{}{}}
	var qmu sync.Mutex
	next := func() (chunk, bool) {
		qmu.Lock()
		defer qmu.Unlock()
		if len(queue) == 0 {
			return chunk{}, false
		}
		c := queue[0]
		queue = queue[1:]
		return c, true
	}
	requeue := func(c chunk) {
		qmu.Lock()
		queue = append([]chunk{c}, queue...)
		qmu.Unlock()
	}
	var wg sync.WaitGroup
	var serial int64
	var smu sync.Mutex
	for w := 0; w < workers; w++ {
		wg.Add(1)
		go func(w int) {
			defer wg.Done()
			for {
				c, ok := next()
				if !ok {
					return
				}
				smu.Lock()
				serial++
				s := serial
				smu.Unlock()
				runChunk(exe, meta, id, tier, seed, c, tmpRoot, buildDir, s, agg, requeue)
			}
		}(w)
	}
	wg.Wait()

	return judge(p, meta, tier, seed, n, agg, start)
}

var raceHdr = regexp.MustCompile(`(?m)^WARNING: DATA RACE`)

func runChunk(exe string, meta Meta, id, tier string, seed int64, c chunk, tmpRoot, buildDir string, serial int64, agg *aggregate, requeue func(chunk)) {
	wdir := filepath.Join(tmpRoot, fmt.Sprintf("w%d", serial))
	os.MkdirAll(wdir, 0755)
	defer func() {
		if os.Getenv("VERIF_KEEP") == "" {
			os.RemoveAll(wdir)
		}
	}()
	logPath := filepath.Join(wdir, "log.jsonl")
	outPath := filepath.Join(wdir, "out.txt")
	out, _ := os.Create(outPath)
	cmd := exec.Command(exe, "worker", "-prop", id, "-tier", tier, "-seed", strconv.FormatInt(seed, 10),
		"-from", strconv.Itoa(c.from), "-to", strconv.Itoa(c.to), "-log", logPath, "-tmp", filepath.Join(wdir, "t"), "-build", buildDir)
	cmd.Stdout = out
	cmd.Stderr = out
	cmd.Env = append(os.Environ(), "GOTRACEBACK=all")
	if meta.Race {
		cmd.Env = append(cmd.Env, "GORACE=halt_on_error=0 log_path="+filepath.Join(wdir, "race"))
	}
	cmd.SysProcAttr = &syscall.SysProcAttr{Setpgid: true}
	timeout := 1200 * time.Second
	if meta.WorkerTimeoutSec > 0 {
		timeout = time.Duration(meta.WorkerTimeoutSec) * time.Second
	}
	if s := os.Getenv("VERIF_WORKER_TIMEOUT"); s != "" {
		if v, err := strconv.Atoi(s); err == nil {
			timeout = time.Duration(v) * time.Second
		}
	}
	timedOut := false
	if err := cmd.Start(); err != nil {
		out.Close()
		agg.mu.Lock()
		agg.inconclusive = append(agg.inconclusive, "cannot start worker: "+err.Error())
		agg.mu.Unlock()
		return
	}
	doneCh := make(chan error, 1)
	go func() { doneCh <- cmd.Wait() }()
	var werr error
	select {
	case werr = <-doneCh:
	case <-time.After(timeout):
		timedOut = true
		syscall.Kill(-cmd.Process.Pid, syscall.SIGQUIT)
		select {
		case werr = <-doneCh:
		case <-time.After(10 * time.Second):
			syscall.Kill(-cmd.Process.Pid, syscall.SIGKILL)
			werr = <-doneCh
		}
	}
	// make sure no stray children survive the worker
	syscall.Kill(-cmd.Process.Pid, syscall.SIGKILL)
	out.Close()

	begun := map[int]bool{}
	ended := map[int]*CaseResult{}
	lastBegin := -1
	if f, err := os.Open(logPath); err == nil {
		sc := bufio.NewScanner(f)
		sc.Buffer(make([]byte, 1<<20), 64<<20)
		for sc.Scan() {
			var l logLine
			if json.Unmarshal(sc.Bytes(), &l) != nil {
				continue
			}
			switch l.Ev {
			case "begin":
				begun[l.I] = true
				lastBegin = l.I
			case "end":
				if l.Res != nil {
					ended[l.I] = l.Res
				}
			}
		}
		f.Close()
	}
	outTail := tailFile(outPath, 12000)

	agg.mu.Lock()
	defer agg.mu.Unlock()
	agg.workers++
	for i, r := range ended {
		agg.done++
		for k, v := range r.Counts {
			agg.counts[k] += v
		}
		if r.Nontrivial != "" {
			agg.nt[r.Nontrivial] = true
		}
		if r.Sample != nil && len(agg.samples) < 64 {
			agg.samples[i] = r.Sample
		}
		for _, v := range r.Violations {
			agg.violations = append(agg.violations, foundViolation{i, v})
		}
		for _, s := range r.Inconclusive {
			agg.inconclusive = append(agg.inconclusive, fmt.Sprintf("case %d: %s", i, s))
		}
	}
	// crash / timeout attribution
	if lastBegin >= 0 && ended[lastBegin] == nil {
		if timedOut && meta.HangKey != "" {
			agg.violations = append(agg.violations, foundViolation{lastBegin, Violation{
				Key:    meta.HangKey,
				Msg:    fmt.Sprintf("the worker process made no progress inside this case for %s and had to be killed (goroutine dump in the worker output)", timeout),
				Detail: J{"worker_output_tail": lastLines(outTail, 40)},
			}})
		} else if timedOut {
			agg.inconclusive = append(agg.inconclusive, fmt.Sprintf("case %d: worker watchdog fired after %s", lastBegin, timeout))
		} else {
			agg.crashes++
			site := PanicSite(outTail)
			kind := "crash"
			if strings.Contains(outTail, "fatal error:") {
				kind = "fatal"
			}
			agg.violations = append(agg.violations, foundViolation{lastBegin, Violation{
				Key:    kind + ":" + site,
				Msg:    fmt.Sprintf("worker process died while executing case %d (%v)", lastBegin, werr),
				Detail: map[string]string{"output_tail": outTail},
			}})
		}
		if lastBegin+1 < c.to {
			agg.mu.Unlock()
			requeue(chunk{lastBegin + 1, c.to})
			agg.mu.Lock()
		}
	} else if lastBegin < 0 {
		agg.inconclusive = append(agg.inconclusive, fmt.Sprintf("worker for cases [%d,%d) produced no log (%v): %s", c.from, c.to, werr, lastLines(outTail, 5)))
	} else if lastBegin+1 < c.to {
		// worker stopped early without a crash in a case (should not happen)
		agg.inconclusive = append(agg.inconclusive, fmt.Sprintf("worker for cases [%d,%d) stopped after case %d (%v): %s", c.from, c.to, lastBegin, werr, lastLines(outTail, 5)))
	}
	if meta.Race {
		files, _ := filepath.Glob(filepath.Join(wdir, "race.*"))
		for _, f := range files {
			b, _ := ioutil.ReadFile(f)
			blocks := splitRaceBlocks(string(b))
			agg.raceBlocks += len(blocks)
			for _, blk := range blocks {
				agg.violations = append(agg.violations, foundViolation{c.from, Violation{
					Key:    "race:" + raceKey(blk),
					Msg:    fmt.Sprintf("Go race detector report in worker for cases [%d,%d)", c.from, c.to),
					Detail: map[string]string{"report": truncate(blk, 6000)},
				}})
			}
		}
	}
}

func splitRaceBlocks(s string) []string {
	idx := raceHdr.FindAllStringIndex(s, -1)
	var out []string
	for i, m := range idx {
		end := len(s)
		if i+1 < len(idx) {
			end = idx[i+1][0]
		}
		out = append(out, s[m[0]:end])
	}
	return out
}

var frameRe = regexp.MustCompile(`(?m)^  ([A-Za-z0-9_./*()\-]+)\(`)

// raceKey is the pair of first whispertool (or first) frames of the two accesses.
func raceKey(block string) string {
	parts := strings.Split(block, "\n\n")
	var keys []string
	for _, p := range parts {
		if !(strings.Contains(p, "Write at") || strings.Contains(p, "Read at") || strings.Contains(p, "Previous write") || strings.Contains(p, "Previous read")) {
			continue
		}
		ms := frameRe.FindAllStringSubmatch(p, -1)
		k := ""
		for _, m := range ms {
			if strings.Contains(m[1], "whispertool") || strings.Contains(m[1], "filebuffer") {
				k = m[1]
				break
			}
		}
		if k == "" && len(ms) > 0 {
			k = ms[0][1]
		}
		keys = append(keys, k)
	}
	sort.Strings(keys)
	return strings.Join(keys, "|")
}

func truncate(s string, n int) string {
	if len(s) > n {
		return s[:n] + "…"
	}
	return s
}

func tailFile(path string, n int) string {
	b, err := ioutil.ReadFile(path)
	if err != nil {
		return ""
	}
	if len(b) > n {
		// keep the head of a panic (the interesting part) and the tail
		i := bytes.Index(b, []byte("panic:"))
		if j := bytes.Index(b, []byte("fatal error:")); j >= 0 && (i < 0 || j < i) {
			i = j
		}
		if i >= 0 {
			e := i + n
			if e > len(b) {
				e = len(b)
			}
			return string(b[i:e])
		}
		b = b[len(b)-n:]
	}
	return string(b)
}

func lastLines(s string, n int) string {
	ls := strings.Split(strings.TrimSpace(s), "\n")
	if len(ls) > n {
		ls = ls[len(ls)-n:]
	}
	return strings.Join(ls, " / ")
}

// ---------------------------------------------------------------------------
// verdict, replay files, evidence

type evidence struct {
	PropertyID  string                 `json:"property_id"`
	Tier        string                 `json:"tier"`
	Seed        int64                  `json:"seed"`
	Level       string                 `json:"level"`
	Coverage    map[string]interface{} `json:"coverage"`
	Assumptions []string               `json:"assumptions"`
	WallS       float64                `json:"wall_s"`
	Violations  int                    `json:"violations"`
	Verdict     string                 `json:"verdict"`
}

func judge(p Property, meta Meta, tier string, seed int64, n int, agg *aggregate, start time.Time) int {
	known := loadKnown()
	isKnown := func(key string) *knownFinding {
		for i := range known {
			k := &known[i]
			if k.Property == meta.ID && k.Status == "known" && k.Key == key {
				return k
			}
		}
		return nil
	}
	sort.Slice(agg.violations, func(i, j int) bool {
		if agg.violations[i].Index != agg.violations[j].Index {
			return agg.violations[i].Index < agg.violations[j].Index
		}
		return agg.violations[i].V.Key < agg.violations[j].V.Key
	})
	replayDir := filepath.Join(OutDir(), "replays", meta.ID)
	seenKey := map[string]int{}
	knownSeen := map[string]int{}
	var lines []string
	newViol := 0
	for _, fv := range agg.violations {
		if k := isKnown(fv.V.Key); k != nil {
			knownSeen[fv.V.Key]++
			continue
		}
		newViol++
		seenKey[fv.V.Key]++
		if seenKey[fv.V.Key] > 2 || len(lines) >= 12 {
			continue // at most two replay files per witness key
		}
		os.MkdirAll(replayDir, 0755)
		path := filepath.Join(replayDir, fmt.Sprintf("%s-seed%d-case%d-%d.json", tier, seed, fv.Index, len(lines)+1))
		rf := map[string]interface{}{
			"property": meta.ID, "tier": tier, "seed": seed, "index": fv.Index,
			"key": fv.V.Key, "msg": fv.V.Msg, "detail": fv.V.Detail,
			"replay_cmd": fmt.Sprintf("./check %s --replay %s", meta.ID, path),
		}
		b, _ := json.MarshalIndent(rf, "", " ")
		ioutil.WriteFile(path, b, 0644)
		lines = append(lines, fmt.Sprintf("VIOLATION property=%s replay=%s", meta.ID, path))
		fmt.Printf("  witness key=%s case=%d: %s\n", fv.V.Key, fv.Index, truncate(fv.V.Msg, 400))
	}
	for key, cnt := range knownSeen {
		k := isKnown(key)
		fmt.Printf("KNOWN-FINDING: property=%s %s (key=%s, seen %d times)\n", meta.ID, k.What, key, cnt)
	}

	// obligations
	var unmet []string
	for _, o := range meta.Obligations {
		if agg.counts[o] <= 0 {
			unmet = append(unmet, o)
		}
	}
	if agg.done < n {
		agg.inconclusive = append(agg.inconclusive, fmt.Sprintf("only %d of %d planned cases completed", agg.done, n))
	}

	verdict := "held"
	code := 0
	if newViol > 0 {
		verdict = "violated"
		code = 1
	} else if len(unmet) > 0 || len(agg.inconclusive) > 0 {
		verdict = "inconclusive"
		code = 3
	}

	// evidence
	var idxs []int
	for i := range agg.samples {
		idxs = append(idxs, i)
	}
	sort.Ints(idxs)
	var samples []interface{}
	for _, i := range idxs {
		if len(samples) >= 4 {
			break
		}
		samples = append(samples, map[string]interface{}{"case": i, "seed": seed, "what": agg.samples[i]})
	}
	observed := map[string]int64{}
	for k, v := range agg.counts {
		observed[k] = v
	}
	cov := map[string]interface{}{
		"evaluations":                agg.done,
		"distinct_nontrivial":        len(agg.nt),
		"rule":                       meta.Rule,
		"samples":                    samples,
		"observed":                   observed,
		"coverage_obligations":       meta.Obligations,
		"coverage_obligations_unmet": unmet,
		"planned_cases":              n,
		"worker_processes":           agg.workers,
		"worker_crashes":             agg.crashes,
		"known_findings_seen":        knownSeen,
		"inconclusive":               agg.inconclusive,
	}
	if meta.Race {
		cov["race_reports"] = agg.raceBlocks
	}
	if meta.Exhaustive != nil && meta.Exhaustive(tier) && verdict != "inconclusive" {
		cov["exhaustive"] = true
	}
	level := meta.Level
	if level == "" {
		level = "exploration"
	}
	ev := evidence{
		PropertyID: meta.ID, Tier: tier, Seed: seed, Level: level,
		Coverage: cov, Assumptions: meta.Assumptions,
		WallS: time.Since(start).Seconds(), Violations: newViol, Verdict: verdict,
	}
	os.MkdirAll(filepath.Join(OutDir(), "evidence"), 0755)
	b, _ := json.MarshalIndent(ev, "", " ")
	evPath := filepath.Join(OutDir(), "evidence", meta.ID+".json")
	tmp := evPath + ".tmp"
	ioutil.WriteFile(tmp, append(b, '\n'), 0644)
	os.Rename(tmp, evPath)
	if tier == "thorough" {
		// keep the last thorough evidence next to the (always rewritten) per-property file
		os.MkdirAll(filepath.Join(OutDir(), "evidence", "thorough"), 0755)
		ioutil.WriteFile(filepath.Join(OutDir(), "evidence", "thorough", meta.ID+".json"), append(b, '\n'), 0644)
	}

	// report
	keys := make([]string, 0, len(observed))
	for k := range observed {
		keys = append(keys, k)
	}
	sort.Strings(keys)
	var obs []string
	for _, k := range keys {
		obs = append(obs, fmt.Sprintf("%s=%d", k, observed[k]))
	}
	fmt.Printf("%s %s seed=%d: %d/%d cases, %d distinct non-trivial, %.1fs\n", meta.ID, tier, seed, agg.done, n, len(agg.nt), ev.WallS)
	fmt.Printf("  observed: %s\n", strings.Join(obs, " "))
	for _, l := range lines {
		fmt.Println(l)
	}
	switch verdict {
	case "held":
		fmt.Printf("HELD property=%s on everything explored\n", meta.ID)
	case "inconclusive":
		reason := ""
		if len(unmet) > 0 {
			reason = "coverage obligations not met: " + strings.Join(unmet, ",")
		}
		if len(agg.inconclusive) > 0 {
			if reason != "" {
				reason += "; "
			}
			reason += truncate(strings.Join(agg.inconclusive, "; "), 800)
		}
		fmt.Printf("INCONCLUSIVE property=%s reason=%s\n", meta.ID, reason)
	}
	return code
}

// ReplayMain re-executes the case recorded in a replay file.
func ReplayMain(path string) int {
	b, err := ioutil.ReadFile(path)
	if err != nil {
		fmt.Fprintln(os.Stderr, err)
		return 2
	}
	var rf struct {
		Property string `json:"property"`
		Tier     string `json:"tier"`
		Seed     int64  `json:"seed"`
		Index    int    `json:"index"`
		Key      string `json:"key"`
	}
	if err := json.Unmarshal(b, &rf); err != nil {
		fmt.Fprintln(os.Stderr, err)
		return 2
	}
	p := Lookup(rf.Property)
	if p == nil {
		fmt.Fprintf(os.Stderr, "unknown property %q\n", rf.Property)
		return 2
	}
	meta := p.Meta()
	buildDir := os.Getenv("VERIF_BUILD")
	if buildDir == "" {
		buildDir = filepath.Join(VerifDir(), ".build")
	}
	exe := filepath.Join(buildDir, "vcheck")
	if meta.Race {
		exe = filepath.Join(buildDir, "vcheck-race")
	}
	tmpRoot, err := ioutil.TempDir(os.Getenv("VERIF_TMP"), "vreplay-")
	if err != nil {
		fmt.Fprintln(os.Stderr, err)
		return 2
	}
	defer os.RemoveAll(tmpRoot)
	agg := &aggregate{counts: map[string]int64{}, nt: map[string]bool{}, samples: map[int]interface{}{}}
	runChunk(exe, meta, rf.Property, rf.Tier, rf.Seed, chunk{rf.Index, rf.Index + 1}, tmpRoot, buildDir, 1, agg, func(chunk) {})
	if len(agg.violations) == 0 {
		fmt.Printf("replay of %s case %d (seed %d, tier %s): no violation observed\n", rf.Property, rf.Index, rf.Seed, rf.Tier)
		return 0
	}
	for _, fv := range agg.violations {
		d, _ := json.MarshalIndent(fv.V.Detail, "  ", " ")
		fmt.Printf("replayed violation key=%s: %s\n  %s\n", fv.V.Key, fv.V.Msg, truncate(string(d), 4000))
	}
	fmt.Printf("VIOLATION property=%s replay=%s\n", rf.Property, path)
	return 1
}
