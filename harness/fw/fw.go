// Package fw is the small execution framework shared by all property checks:
// deterministic case planning from (seed, index), worker processes with
// BEGIN/END attribution of crashes, aggregation of coverage counters, known
// findings, replay files and evidence output.
package fw

import (
	"crypto/sha256"
	"encoding/hex"
	"encoding/json"
	"fmt"
	"hash/fnv"
	"math/rand"
	"os"
	"path/filepath"
	"runtime/debug"
	"sort"
	"strings"
	"sync"
)

// Meta describes a property check.
type Meta struct {
	ID          string
	Rule        string   // how cases are generated and what makes one non-trivial
	Assumptions []string // explored-domain bounds, trusted base
	Obligations []string // counters that must be > 0 in every run (else inconclusive)
	Race        bool     // workers run the -race build; race reports are violations
	Level       string   // evidence level (default "exploration")
	// Workers limits the number of parallel worker processes (0 = number of CPUs).
	Workers int
	// ChunkSize overrides the number of cases per worker process (0 = auto).
	ChunkSize int
	// HangKey, when set, makes a worker that stops making progress inside a case (the parent's watchdog has to kill it)
	// a violation with this witness key instead of an inconclusive run: for properties whose subject is blocking
	// behaviour, a process in which no goroutine can run any more is the failure itself.
	HangKey string
	// WorkerTimeoutSec overrides the parent's per-worker watchdog (default 1200 s).
	WorkerTimeoutSec int
	// Exhaustive is set when the thorough tier enumerates a finite space completely.
	Exhaustive func(tier string) bool
}

// Property is implemented by each check.
type Property interface {
	Meta() Meta
	// Cases returns the number of cases of the tier.
	Cases(tier string) int
	// Run executes case c.Index. It must derive all random choices from c.Rng.
	Run(c *Ctx)
}

// WorkerSetup may be implemented by a property that needs per-worker-process
// fixtures (e.g. a server child process). The returned function is called at exit.
type WorkerSetup interface {
	SetupWorker(w *WorkerEnv) (teardown func(), err error)
}

// WorkerEnv is what a worker process knows about itself.
type WorkerEnv struct {
	Prop     string
	Tier     string
	Seed     int64
	Tmp      string // per-worker scratch directory
	BuildDir string // directory holding the freshly built binaries
	State    map[string]interface{}
}

// Violation is one observed refutation of the property.
type Violation struct {
	Key    string      `json:"key"` // canonical witness key (for known findings)
	Msg    string      `json:"msg"`
	Detail interface{} `json:"detail,omitempty"`
}

// CaseResult is what a worker reports for one case.
type CaseResult struct {
	Index        int              `json:"i"`
	Counts       map[string]int64 `json:"counts,omitempty"`
	Violations   []Violation      `json:"viol,omitempty"`
	Nontrivial   string           `json:"nt,omitempty"` // hash of the case if non-trivial
	Sample       interface{}      `json:"sample,omitempty"`
	Inconclusive []string         `json:"inconcl,omitempty"`
}

// Ctx is the per-case context handed to Property.Run.
type Ctx struct {
	Prop   string
	Tier   string
	Seed   int64
	Index  int
	Rng    *rand.Rand
	Env    *WorkerEnv
	Replay bool

	mu     sync.Mutex
	res    *CaseResult
	tmp    string
	ntHash []string
}

// CaseSeed derives the PRNG seed of a case.
func CaseSeed(prop string, seed int64, index int) int64 {
	h := fnv.New64a()
	fmt.Fprintf(h, "%s/%d/%d", prop, seed, index)
	return int64(h.Sum64() & 0x7fffffffffffffff)
}

func newCtx(env *WorkerEnv, index int) *Ctx {
	return &Ctx{
		Prop:  env.Prop,
		Tier:  env.Tier,
		Seed:  env.Seed,
		Index: index,
		Rng:   rand.New(rand.NewSource(CaseSeed(env.Prop, env.Seed, index))),
		Env:   env,
		res:   &CaseResult{Index: index, Counts: map[string]int64{}},
	}
}

// Count adds n to a coverage counter.
func (c *Ctx) Count(name string, n int64) {
	c.mu.Lock()
	c.res.Counts[name] += n
	c.mu.Unlock()
}

// Violationf records a violation.
func (c *Ctx) Violationf(key string, detail interface{}, format string, args ...interface{}) {
	c.mu.Lock()
	defer c.mu.Unlock()
	if len(c.res.Violations) >= 8 {
		return // enough witnesses for one case
	}
	detail = jsonSafe(detail)
	c.res.Violations = append(c.res.Violations, Violation{Key: key, Msg: fmt.Sprintf(format, args...), Detail: detail})
}

// Violated reports whether the case already recorded a violation.
func (c *Ctx) Violated() bool {
	c.mu.Lock()
	defer c.mu.Unlock()
	return len(c.res.Violations) > 0
}

// Inconclusive records that the case could not be judged.
func (c *Ctx) Inconclusive(reason string) {
	c.mu.Lock()
	c.res.Inconclusive = append(c.res.Inconclusive, reason)
	c.mu.Unlock()
}

// Nontrivial marks the case as non-trivial; parts identify the case for
// distinctness (they are hashed).
func (c *Ctx) Nontrivial(parts ...interface{}) {
	c.mu.Lock()
	c.ntHash = append(c.ntHash, fmt.Sprint(parts...))
	c.mu.Unlock()
}

// Sample offers a description of this case for the evidence file.
func (c *Ctx) Sample(v interface{}) {
	c.mu.Lock()
	if c.res.Sample == nil {
		c.res.Sample = jsonSafe(v)
	}
	c.mu.Unlock()
}

// TmpDir returns a scratch directory private to the case (removed afterwards).
func (c *Ctx) TmpDir() string {
	c.mu.Lock()
	defer c.mu.Unlock()
	if c.tmp == "" {
		d := filepath.Join(c.Env.Tmp, fmt.Sprintf("case-%d", c.Index))
		os.RemoveAll(d)
		if err := os.MkdirAll(d, 0755); err != nil {
			panic(err)
		}
		c.tmp = d
	}
	return c.tmp
}

func (c *Ctx) finish() *CaseResult {
	if c.tmp != "" && os.Getenv("VERIF_KEEP") == "" {
		os.RemoveAll(c.tmp)
	}
	if len(c.ntHash) > 0 {
		sort.Strings(c.ntHash)
		s := sha256.Sum256([]byte(strings.Join(c.ntHash, "\x00")))
		c.res.Nontrivial = hex.EncodeToString(s[:8])
	}
	return c.res
}

// runCase runs one case, converting a panic of the harness goroutine into a violation.
func runCase(p Property, env *WorkerEnv, index int, replay bool) (res *CaseResult) {
	c := newCtx(env, index)
	c.Replay = replay
	defer func() {
		if r := recover(); r != nil {
			st := string(debug.Stack())
			if len(st) > 6000 {
				st = st[:6000]
			}
			c.Violationf("panic:"+PanicSite(st), map[string]string{"panic": fmt.Sprint(r), "stack": st}, "panic while executing case: %v", r)
		}
		res = c.finish()
	}()
	p.Run(c)
	return
}

// PanicSite extracts the first whispertool frame of a stack trace (a stable key).
func PanicSite(stack string) string {
	lines := strings.Split(stack, "\n")
	for _, l := range lines {
		l = strings.TrimSpace(l)
		if strings.HasPrefix(l, "github.com/hnakamur/whispertool") {
			if i := strings.LastIndex(l, "("); i > 0 {
				l = l[:i]
			}
			return strings.TrimPrefix(l, "github.com/hnakamur/")
		}
	}
	return "harness"
}

// J is a convenience alias for ad-hoc JSON objects.
type J map[string]interface{}

// JSON renders v compactly (for messages).
func JSON(v interface{}) string {
	b, err := json.Marshal(v)
	if err != nil {
		return fmt.Sprintf("%+v", v)
	}
	return string(b)
}

// jsonSafe makes sure v can be marshalled (NaN/Inf floats cannot): otherwise it is rendered as text.
func jsonSafe(v interface{}) interface{} {
	if v == nil {
		return nil
	}
	if _, err := json.Marshal(v); err != nil {
		return fmt.Sprintf("%+v", v)
	}
	return v
}
