package props

import (
	"bytes"
	"fmt"
	"io/ioutil"
	"math"
	"os"
	"path/filepath"
	"sort"
	"strconv"
	"strings"
	"time"

	wt "github.com/hnakamur/whispertool"

	"verifharness/fw"
	"verifharness/model"
)

// C11 sum-copy stores the sum; sum-diff agrees with it.

type c11 struct{}

func init() { fw.Register(c11{}) }

func (c11) Meta() fw.Meta {
	return fw.Meta{
		ID: "C11",
		Rule: "case = a C10 tree (2-4 items, 1-12 files each, exact-addition values with NaN holes; the sum's coarser archives are NOT the aggregate of its finer ones) x destination state per item {absent, never written, equal to the sum, equal except perturbed finest-archive slots (coarser archives already agree), unrelated} x window {default, past, narrow} x -archive all/one, through the real sum-copy and sum-diff binaries. " +
			"oracle (independent slot-wise sum of library fetches at the clock printed per item): after sum-copy exit 0 every destination (created with the requested header when absent) equals the sum in every selected archive and slot of the window, NaN included; the immediately following sum-diff exits 0; " +
			"then k>=1 destination slots of ONE item (first, middle or last in glob order) are perturbed with the library (value->other, value->NaN, NaN->value) and sum-diff must exit 1 and list exactly the slots in which that destination now deviates from the sum, with both values. " +
			"non-trivial = scenario where sum-copy had to write at least one slot and leave at least one equal slot, and the perturbed item is not the last one; distinct by scenario." +
			" Odd cases send the final sum-diff listing to a -text-out file; even cases then delete all sources of an EARLIER item and require the deviating slots of the perturbed item to be listed still." +
			" Every 4th case reads its sources through a server (nested items included); in even cases the first file of grpF is locked for 300 ms during sum-copy.",
		Assumptions: []string{
			"the oracle uses the per-item clock printed by the commands",
			"behaviour of sum-diff for a missing destination is not specified by the property (only C16 applies)",
		},
		Obligations: []string{"sumcopy_runs", "dest_created", "dest_slots_compared", "sumdiff_clean_after_copy", "sumdiff_detects_perturbation", "sumdiff_records_checked", "perturbed_item_not_last", "coarser_agree_finer_differ", "single_archive_selection", "past_window", "window_beyond_finest_retention", "slow_first_item_runs", "one_ulp_perturbations", "sumdiff_listing_to_file", "sumdiff_with_an_item_without_sources", "runs_with_sources_on_a_server", "order_sensitive_item_first_file_read_last"},
		Workers:     12,
	}
}

func (c11) Cases(tier string) int {
	if tier == "thorough" {
		return 24000
	}
	return 320
}

func seriesToContent(ts []*wt.TimeSeries) slotContent {
	c := make(slotContent, len(ts))
	for ai := range ts {
		c[ai] = map[int64]float64{}
		if ts[ai] == nil {
			continue
		}
		for j, v := range ts[ai].Values() {
			if !math.IsNaN(float64(v)) {
				c[ai][int64(ts[ai].FromTime())+int64(j)*int64(ts[ai].Step())] = float64(v)
			}
		}
	}
	return c
}

func (c11) Run(c *fw.Ctx) {
	r := c.Rng
	dir := c.TmpDir()
	l := cliLayout(r)
	if len(l.Archs) < 2 && c.Index%2 == 0 {
		l = model.Layout{Archs: []model.Arch{{Step: 1, Points: 40}, {Step: 5, Points: 30}, {Step: 20, Points: 25}}, Method: 1 + r.Intn(6), Xff: 0.5}
	}
	now := time.Now().Unix()
	srcBase, destBase := filepath.Join(dir, "src"), filepath.Join(dir, "dest")
	tree := buildSumTree(r, srcBase, l, now, c)
	var items []string
	for d := range tree.Items {
		items = append(items, d)
	}
	sort.Strings(items)
	states := []string{"absent", "never-written", "equal", "finer-perturbed", "unrelated"}
	state := states[c.Index%len(states)]
	sel := -1
	if c.Index%4 == 3 {
		sel = r.Intn(len(l.Archs))
		c.Count("single_archive_selection", 1)
	}
	var from, until int64
	window := []string{"default", "past", "narrow", "beyond-finest", "default"}[(c.Index/5)%5]
	a0 := l.Archs[0]
	switch window {
	case "past":
		until = now - a0.Ret()/3 - r.Int63n(a0.Ret()/3+1)
		from = until - r.Int63n(l.MaxRet()/2+1) - 1
		c.Count("past_window", 1)
	case "narrow":
		from = now - r.Int63n(a0.Ret()/2+1) - 2
		until = from + 1 + r.Int63n(3*int64(a0.Step)+1)
	case "beyond-finest":
		// wholly older than the finest archive's retention, still covered by the coarser ones (back-filling)
		until = now - a0.Ret() - 2 - r.Int63n(int64(a0.Step)*3+1)
		from = until - r.Int63n(l.MaxRet()/2+1) - 1
		c.Count("window_beyond_finest_retention", 1)
	}
	if window != "default" && from < 1 {
		from = 1
	}
	// destination fixtures
	destPath := func(it string) string { return filepath.Join(destBase, it, "sum.wsp") }
	existed := map[string]bool{}
	for _, it := range items {
		full, _ := expectedSum(tree, it, -1, 0, now, now, c)
		cont := seriesToContent(full)
		dp := destPath(it)
		switch state {
		case "absent":
		case "never-written":
			mustMkdir(filepath.Dir(dp))
			db, err := createFile(dp, l)
			if err != nil {
				panic(err)
			}
			db.Sync()
			db.Close()
		case "equal":
			writeFixture(dp, l, cont, now)
		case "finer-perturbed":
			d := cloneContent(cont)
			perturb(r, d, []int{0}, 1+r.Intn(4))
			writeFixture(dp, l, d, now)
			if len(l.Archs) > 1 {
				c.Count("coarser_agree_finer_differ", 1)
			}
		default:
			writeFixture(dp, l, genContent(r, l, now, 0.5), now)
		}
		existed[it] = fileExists(dp)
		if existed[it] {
			ioutil.WriteFile(filepath.Join(dir, "pre-"+dotted(it)+".wsp"), readFileOrNil(dp), 0644)
		}
	}
	win := func(args []string) []string {
		if window != "default" {
			args = append(args, "-from", tsArg(from), "-until", tsArg(until))
		}
		return args
	}
	itemPat := "*"
	// "*" would also match "nest" (no files): use explicit patterns covering the items
	pats := []string{"grp*", "nest/*"}
	sc := fw.J{"layout": l.String(), "items": tree.Items, "dest_state": state, "window": window, "from": from, "until": until, "archive": sel, "fixture_clock": now}
	_ = itemPat
	wrote, kept := int64(0), int64(0)
	itemNow := map[string]int64{}
	// every 4th case reads the sources through a real server (nested items included): the served directory holds a link
	// to the source tree, and the destination base holds a link of the same name to itself so that paths coincide
	srcArg, itemPrefix := srcBase, ""
	if c.Index%4 == 1 {
		if u, served, ok := workerServer(c); ok {
			name := fmt.Sprintf("c11-%d", c.Index)
			os.Symlink(srcBase, filepath.Join(served, name))
			defer os.Remove(filepath.Join(served, name))
			mustMkdir(destBase)
			os.Symlink(destBase, filepath.Join(destBase, name))
			srcArg, itemPrefix = u, name+"/"
			c.Count("runs_with_sources_on_a_server", 1)
		}
	}
	norm := func(reported string) string { return strings.TrimPrefix(reported, dotted(itemPrefix)) }
	for _, pat := range pats {
		args := win([]string{"sum-copy", "-src-base", srcArg, "-item", itemPrefix + pat, "-src", "*.wsp", "-dest-base", destBase, "-dest", "sum.wsp",
			"-agg-method", model.MethodNames[l.Method], "-x-files-factor", strconv.FormatFloat(float64(l.Xff), 'g', -1, 32), "-retentions", l.RetentionString(), "-archive", strconv.Itoa(sel)})
		pre := map[string][]*wt.TimeSeries{}
		if pat == "grp*" && window == "default" && c.Index%3 == 2 {
			// the first item is slow (its first source file is locked for a moment) and meanwhile a fresh point
			// arrives in the LAST item's sources: every item's window must end at its own clock
			var grp []string
			for _, it := range items {
				if filepath.Dir(it) == "." {
					grp = append(grp, it)
				}
			}
			if len(grp) >= 2 {
				hold, err := wt.Open(filepath.Join(srcBase, grp[0], tree.Items[grp[0]][0]))
				if err == nil {
					lastItem := grp[len(grp)-1]
					go func() {
						time.Sleep(time.Duration(1200+r.Intn(600)) * time.Millisecond)
						if db, err := wt.Open(filepath.Join(srcBase, lastItem, tree.Items[lastItem][0])); err == nil {
							tn := time.Now().Unix()
							db.UpdatePointsForArchive([]wt.Point{{Time: u32(tn), Value: 12345.5}}, 0, u32(tn))
							db.Sync()
							db.Close()
						}
						hold.Close()
					}()
					c.Count("slow_first_item_runs", 1)
				}
			}
		}
		if pat == "grp*" && c.Index%2 == 0 {
			// the first file of the order-sensitive item (values 1, 1e17, -1e17) is locked for a moment: it is read last
			if hold, err := wt.Open(filepath.Join(srcBase, "grpF", tree.Items["grpF"][0])); err == nil {
				go func() { time.Sleep(300 * time.Millisecond); hold.Close() }()
				c.Count("order_sensitive_item_first_file_read_last", 1)
			}
		}
		res := runCLI(c, args...)
		det := fw.J{"scenario": sc, "run": res.brief()}
		c.Count("sumcopy_runs", 1)
		if cliPanicked(res) {
			c.Violationf("panic", det, "sum-copy panicked")
			return
		}
		if res.Exit != 0 {
			c.Violationf("sumcopy-failed", det, "sum-copy exited %d: %s", res.Exit, truncStr(res.Stderr, 300))
			return
		}
		out := parseOutput(res.Stdout)
		matched, _ := filepath.Glob(filepath.Join(srcBase, pat))
		if len(out.Nows) != len(matched) {
			c.Violationf("sumcopy-items", det, "sum-copy printed %d items for %d matched directories", len(out.Nows), len(matched))
			return
		}
		for _, nl := range out.Nows {
			var it string
			for _, cand := range items {
				if dotted(cand) == norm(nl.Name) {
					it = cand
				}
			}
			if it == "" {
				c.Violationf("sumcopy-items", det, "unknown item %q in the output", nl.Name)
				return
			}
			itemNow[it] = nl.Now
			u := until
			if window == "default" {
				u = nl.Now
			}
			want, _ := expectedSum(tree, it, sel, from, u, nl.Now, c)
			dp := destPath(it)
			if !fileExists(dp) {
				c.Violationf("sumcopy-dest-missing", det, "after sum-copy the destination of item %s does not exist", it)
				return
			}
			if !existed[it] {
				c.Count("dest_created", 1)
				img := readFileOrNil(dp)
				wantH := model.EncodeHeader(l)
				if int64(len(img)) != l.FileSize() || !bytes.Equal(img[:len(wantH)], wantH) {
					c.Violationf("sumcopy-created-header", det, "the created destination of item %s does not carry the requested header", it)
					return
				}
			}
			got, _, err := fetchArchives(dp, sel, from, u, nl.Now)
			if err != nil {
				c.Violationf("sumcopy-dest-unreadable", det, "destination of %s unreadable: %v", it, err)
				return
			}
			for ai := range l.Archs {
				if want[ai] == nil {
					continue
				}
				if msg := seriesEqualNumeric(got[ai], want[ai]); msg != "" {
					dbg := ""
					if pp := filepath.Join(dir, "pre-"+dotted(it)+".wsp"); fileExists(pp) {
						if pre, _, err := fetchArchives(pp, sel, from, u, nl.Now); err == nil && pre[ai] != nil {
							dbg = seriesEqual(pre[ai], want[ai])
						}
					}
					c.Violationf("sumcopy-dest-differs-from-sum", fw.J{"scenario": sc, "run": res.brief(), "item": it, "archive": ai, "cmd_now": nl.Now, "detail": msg, "destination_before_vs_sum": dbg},
						"after sum-copy item %s archive %d: destination differs from the sum: %s (dest vs sum)", it, ai, msg)
					return
				}
				c.Count("dest_slots_compared", int64(len(want[ai].Values())))
				_ = pre
			}
			if state == "equal" {
				kept++
			} else {
				wrote++
				if state == "finer-perturbed" {
					kept++
				}
			}
		}
	}
	// ---- sum-diff right after is clean
	for _, pat := range pats {
		args := win([]string{"sum-diff", "-src-base", srcArg, "-item", itemPrefix + pat, "-src", "*.wsp", "-dest-base", destBase, "-dest", "sum.wsp", "-archive", strconv.Itoa(sel)})
		res := runCLI(c, args...)
		if cliPanicked(res) || (res.Exit != 0 && res.Exit != 1) {
			c.Violationf("sumdiff-after-sumcopy-not-clean", fw.J{"scenario": sc, "run": res.brief()}, "sum-diff right after sum-copy over the same window exited %d", res.Exit)
			return
		}
		if res.Exit == 1 {
			// "the same window" is a window in the commands' own clocks: when it touches a retention edge and a second
			// boundary passed between the two commands, sum-diff looks at a slot sum-copy was never asked for. What is
			// demanded is that sum-diff lists exactly the slots in which the destination deviates from the sum AT ITS CLOCK
			// (that sum-copy wrote everything of ITS window was checked above, at sum-copy's clock).
			out := parseOutput(res.Stdout)
			moved := false
			for ii, nl := range out.Nows {
				var it string
				for _, cand := range items {
					if dotted(cand) == norm(nl.Name) {
						it = cand
					}
				}
				if it == "" {
					continue
				}
				if nl.Now == itemNow[it] {
					end := len(out.Diffs)
					if ii+1 < len(out.Nows) {
						end = out.Nows[ii+1].DiffsFrom
					}
					if end > nl.DiffsFrom {
						c.Violationf("sumdiff-after-sumcopy-not-clean", fw.J{"scenario": sc, "run": res.brief(), "item": it}, "sum-diff right after sum-copy, at the same clock and over the same window, lists %d slots of item %s", end-nl.DiffsFrom, it)
						return
					}
					continue
				}
				moved = true
				u := until
				if window == "default" {
					u = nl.Now
				}
				wantSum, _ := expectedSum(tree, it, sel, from, u, nl.Now, c)
				gotDest, _, err := fetchArchives(destPath(it), sel, from, u, nl.Now)
				if err != nil {
					panic(err)
				}
				var want []expDiff
				for ai := range wantSum {
					if wantSum[ai] == nil || gotDest[ai] == nil {
						continue
					}
					for j, sv := range wantSum[ai].Values() {
						if dv := float64(gotDest[ai].Values()[j]); !valEq(float64(sv), dv) {
							want = append(want, expDiff{ai, int64(wantSum[ai].FromTime()) + int64(j)*int64(wantSum[ai].Step()), float64(sv), dv})
						}
					}
				}
				end := len(out.Diffs)
				if ii+1 < len(out.Nows) {
					end = out.Nows[ii+1].DiffsFrom
				}
				if !checkDiffRecords(c, out.Diffs[nl.DiffsFrom:end], want, fw.J{"scenario": sc, "run": res.brief(), "item": it, "cmd_now": nl.Now, "sumcopy_now": itemNow[it]}) {
					return
				}
			}
			if !moved {
				c.Violationf("sumdiff-after-sumcopy-not-clean", fw.J{"scenario": sc, "run": res.brief()}, "sum-diff right after sum-copy, at the same clock and over the same window, exited 1")
				return
			}
			c.Count("sumdiff_after_copy_at_a_later_second", 1)
			continue
		}
		c.Count("sumdiff_clean_after_copy", 1)
	}
	// ---- perturb one item's destination; sum-diff must list exactly the deviating slots
	grp := []string{}
	for _, it := range items {
		if filepath.Dir(it) == "." {
			grp = append(grp, it)
		}
	}
	victim := grp[[]int{0, len(grp) / 2, len(grp) - 1}[r.Intn(3)]]
	if c.Index%3 == 0 {
		victim = grp[0]
	}
	if victim != grp[len(grp)-1] {
		c.Count("perturbed_item_not_last", 1)
	}
	{
		pnow := time.Now().Unix()
		db, err := wt.Open(destPath(victim))
		if err != nil {
			panic(err)
		}
		k := 1 + r.Intn(3)
		for i := 0; i < k; i++ {
			ai := r.Intn(len(l.Archs))
			if sel >= 0 {
				ai = sel
			}
			a := l.Archs[ai]
			t := pnow - r.Int63n(a.Ret()-1) - 1
			if window != "default" {
				// inside the window of the selected archive when possible
				lo, hi := maxI64(from+1, pnow-a.Ret()+1), minI64(until, pnow)
				if lo <= hi {
					t = lo + r.Int63n(hi-lo+1)
				}
			}
			v := wt.Value(float64(r.Intn(100000)) + 0.5)
			switch r.Intn(4) {
			case 0:
				v = wt.Value(math.NaN())
			case 1:
				// deviate by one unit in the last place from what the destination holds now
				if cur, err := db.FetchFromArchive(ai, u32(t-1), u32(t), u32(pnow)); err == nil && cur != nil && len(cur.Values()) > 0 && !math.IsNaN(float64(cur.Values()[0])) {
					v = wt.Value(math.Nextafter(float64(cur.Values()[0]), math.Inf(1)))
					c.Count("one_ulp_perturbations", 1)
				}
			}
			if err := db.UpdatePointsForArchive([]wt.Point{{Time: u32(t), Value: v}}, ai, u32(pnow)); err != nil {
				panic(err)
			}
		}
		db.Sync()
		db.Close()
	}
	args := win([]string{"sum-diff", "-src-base", srcArg, "-item", itemPrefix + "grp*", "-src", "*.wsp", "-dest-base", destBase, "-dest", "sum.wsp", "-archive", strconv.Itoa(sel)})
	listFile := ""
	if c.Index%2 == 1 {
		// the listing goes to a file: it must be complete there, also when differences are found
		listFile = filepath.Join(c.TmpDir(), "sumdiff.out")
		args = append(args, "-text-out", listFile)
		c.Count("sumdiff_listing_to_file", 1)
	}
	res := runCLI(c, args...)
	if listFile != "" {
		res.Stdout = string(readFileOrNil(listFile))
	}
	det := fw.J{"scenario": sc, "run": res.brief(), "perturbed_item": victim, "listing_file": listFile}
	if cliPanicked(res) {
		c.Violationf("panic", det, "sum-diff panicked")
		return
	}
	out := parseOutput(res.Stdout)
	if len(out.Nows) != len(grp) {
		c.Violationf("sumdiff-items", det, "sum-diff printed %d items for %d matched directories", len(out.Nows), len(grp))
		return
	}
	anyDiff := false
	for ii, nl := range out.Nows {
		it := grp[ii]
		if norm(nl.Name) != dotted(it) {
			c.Violationf("sumdiff-items", det, "item %d reported as %q, want %q", ii, nl.Name, dotted(it))
			return
		}
		u := until
		if window == "default" {
			u = nl.Now
		}
		wantSum, _ := expectedSum(tree, it, sel, from, u, nl.Now, c)
		gotDest, _, err := fetchArchives(destPath(it), sel, from, u, nl.Now)
		if err != nil {
			panic(err)
		}
		var want []expDiff
		for ai := range wantSum {
			if wantSum[ai] == nil || gotDest[ai] == nil {
				continue
			}
			for j, sv := range wantSum[ai].Values() {
				dv := float64(gotDest[ai].Values()[j])
				if !valEq(float64(sv), dv) {
					want = append(want, expDiff{ai, int64(wantSum[ai].FromTime()) + int64(j)*int64(wantSum[ai].Step()), float64(sv), dv})
				}
			}
		}
		end := len(out.Diffs)
		if ii+1 < len(out.Nows) {
			end = out.Nows[ii+1].DiffsFrom
		}
		d := fw.J{"scenario": sc, "run": res.brief(), "item": it, "perturbed_item": victim, "cmd_now": nl.Now}
		if !checkDiffRecords(c, out.Diffs[nl.DiffsFrom:end], want, d) {
			return
		}
		c.Count("sumdiff_records_checked", int64(len(want)))
		if len(want) > 0 {
			anyDiff = true
		}
	}
	wantExit := 0
	if anyDiff {
		wantExit = 1
	}
	if res.Exit != wantExit {
		c.Violationf("sumdiff-verdict", det, "sum-diff exited %d although %s destination deviates from the current sum (want %d)", res.Exit, map[bool]string{true: "a", false: "no"}[anyDiff], wantExit)
		return
	}
	if anyDiff {
		c.Count("sumdiff_detects_perturbation", 1)
	}
	// ---- an EARLIER item loses all its source files (its directory stays): whatever sum-diff says about that item, the
	// deviating slots of the perturbed item, which comes later, are still listed and the verdict is not "clean"
	if anyDiff && victim != grp[0] && c.Index%2 == 0 {
		gone := grp[0]
		for _, n := range tree.Items[gone] {
			os.Remove(filepath.Join(srcBase, gone, n))
		}
		args := win([]string{"sum-diff", "-src-base", srcArg, "-item", itemPrefix + "grp*", "-src", "*.wsp", "-dest-base", destBase, "-dest", "sum.wsp", "-archive", strconv.Itoa(sel)})
		res := runCLI(c, args...)
		det := fw.J{"scenario": sc, "run": res.brief(), "perturbed_item": victim, "item_without_sources": gone}
		c.Count("sumdiff_with_an_item_without_sources", 1)
		if cliPanicked(res) {
			c.Violationf("panic", det, "sum-diff panicked")
			return
		}
		if res.Exit == 0 {
			c.Violationf("sumdiff-verdict", det, "sum-diff exited 0 although the destination of %s deviates from its sum (and %s has no sources)", victim, gone)
			return
		}
		out := parseOutput(res.Stdout)
		found := false
		for ii, nl := range out.Nows {
			if norm(nl.Name) != dotted(victim) {
				continue
			}
			found = true
			u := until
			if window == "default" {
				u = nl.Now
			}
			wantSum, _ := expectedSum(tree, victim, sel, from, u, nl.Now, c)
			gotDest, _, err := fetchArchives(destPath(victim), sel, from, u, nl.Now)
			if err != nil {
				panic(err)
			}
			var want []expDiff
			for ai := range wantSum {
				if wantSum[ai] == nil || gotDest[ai] == nil {
					continue
				}
				for j, sv := range wantSum[ai].Values() {
					dv := float64(gotDest[ai].Values()[j])
					if !valEq(float64(sv), dv) {
						want = append(want, expDiff{ai, int64(wantSum[ai].FromTime()) + int64(j)*int64(wantSum[ai].Step()), float64(sv), dv})
					}
				}
			}
			end := len(out.Diffs)
			if ii+1 < len(out.Nows) {
				end = out.Nows[ii+1].DiffsFrom
			}
			if !checkDiffRecords(c, out.Diffs[nl.DiffsFrom:end], want, det) {
				return
			}
		}
		if !found {
			c.Violationf("sumdiff-items", det, "sum-diff did not reach %s (whose destination deviates) after %s, which has no source files", victim, gone)
			return
		}
	}
	if wrote > 0 && kept > 0 || (anyDiff && victim != grp[len(grp)-1]) {
		c.Nontrivial(fw.JSON(sc), victim)
	}
	if c.Index < 64 {
		c.Sample(sc)
	}
	_ = os.Remove
	_ = fmt.Sprint
}
