package props

import (
	"bytes"
	"context"
	"fmt"
	"io"
	"math"
	"math/rand"
	"net/http"
	"net/http/httptest"
	"net/url"
	"os"
	"os/exec"
	"path/filepath"
	"regexp"
	"strconv"
	"strings"
	"sync"
	"sync/atomic"
	"syscall"
	"time"

	wt "github.com/hnakamur/whispertool"

	"verifharness/fw"
	"verifharness/model"
)

// ---------------------------------------------------------------------------
// running the real binary

type cliResult struct {
	Args   []string
	Exit   int
	Stdout string
	Stderr string
	T0, T1 int64 // wall-clock seconds before and after the run
}

func (r cliResult) brief() fw.J {
	return fw.J{"args": r.Args, "exit": r.Exit, "stdout": truncStr(r.Stdout, 1500), "stderr": truncStr(r.Stderr, 800)}
}

func cliBin(c *fw.Ctx) string { return filepath.Join(c.Env.BuildDir, "whispertool") }

// runCLIAs runs the binary, optionally as another uid (0 = unchanged).
func runCLIAs(c *fw.Ctx, uid uint32, args ...string) cliResult {
	ctx, cancel := context.WithTimeout(context.Background(), 120*time.Second)
	defer cancel()
	bin := cliBin(c)
	if uid != 0 {
		// the build directory may not be reachable for the unprivileged uid: run a copy from the scratch directory
		priv := filepath.Join(c.TmpDir(), "bin-for-uid")
		if b, err := os.ReadFile(bin); err == nil {
			os.MkdirAll(priv, 0755)
			os.Chmod(priv, 0755)
			if os.WriteFile(filepath.Join(priv, "whispertool"), b, 0755) == nil {
				bin = filepath.Join(priv, "whispertool")
			}
		}
	}
	cmd := exec.CommandContext(ctx, bin, args...)
	if pre, ok := c.Env.State["cli_wrapper"].([]string); ok && len(pre) > 0 {
		// e.g. strace with delay injection on the page reads: slows the command down at its own suspension points
		cmd = exec.CommandContext(ctx, pre[0], append(append([]string{}, pre[1:]...), append([]string{bin}, args...)...)...)
	}
	if extra, ok := c.Env.State["cli_env"].([]string); ok && len(extra) > 0 {
		cmd.Env = append(os.Environ(), extra...) // e.g. TZ=Asia/Tokyo: output must not depend on the local zone
	}
	var so, se bytes.Buffer
	cmd.Stdout, cmd.Stderr = &so, &se
	if uid != 0 {
		cmd.SysProcAttr = &syscall.SysProcAttr{Credential: &syscall.Credential{Uid: uid, Gid: uid}}
	}
	res := cliResult{Args: args, T0: time.Now().Unix()}
	err := cmd.Run()
	res.T1 = time.Now().Unix()
	res.Stdout, res.Stderr = so.String(), se.String()
	if err != nil {
		if ee, ok := err.(*exec.ExitError); ok {
			res.Exit = ee.ExitCode()
		} else {
			res.Exit = -100
			res.Stderr += "\n[harness] " + err.Error()
		}
	}
	return res
}

func runCLI(c *fw.Ctx, args ...string) cliResult { return runCLIAs(c, 0, args...) }

// runCLIStable runs the command inside one wall-clock second (the command's own time.Now()
// then equals T0): it waits for the first 300 ms of a second and retries when the second
// changed across the call. prep (may be nil) restores the fixture before every attempt.
func runCLIStable(c *fw.Ctx, prep func(), args ...string) (cliResult, bool) {
	for try := 0; try < 10; try++ {
		if prep != nil {
			prep()
		}
		ns := time.Now().Nanosecond()
		if ns > 300e6 {
			time.Sleep(time.Duration(1e9-ns) + 5*time.Millisecond)
		}
		res := runCLI(c, args...)
		if res.T0 == res.T1 {
			return res, true
		}
		c.Count("discarded_unstable_second", 1)
	}
	return cliResult{}, false
}

func cliPanicked(r cliResult) bool {
	s := r.Stderr + r.Stdout
	return strings.Contains(s, "panic:") || strings.Contains(s, "fatal error:") || strings.Contains(s, "goroutine 1 [") || r.Exit == 2 && strings.Contains(s, "runtime error")
}

func tsArg(t int64) string { return wt.Timestamp(t).String() }

// ---------------------------------------------------------------------------
// parsing text output

type pointLine struct {
	Arch int
	T    int64
	V    float64
	Raw  string
}

type diffLine struct {
	Arch      int
	T         int64
	Src, Dest float64
	DestMinus float64
	Raw       string
}

var pointRe = regexp.MustCompile(`^archive:(\d+)\tt:(\S+)\tval:(\S+)$`)
var diffRe = regexp.MustCompile(`^archive:(\d+)\tt:(\S+)\tsrcVal:(\S+)\tdestVal:(\S+)\tdestMinusSrc:(\S+)$`)
var nowRe = regexp.MustCompile(`^now:(\S+)\t(srcRel|item):([^\t]*)(?:\tdestRel:(.*))?$`)

func parseTime(s string) (int64, bool) {
	t, err := time.Parse("2006-01-02T15:04:05Z", s)
	if err != nil {
		return 0, false
	}
	return t.Unix(), true
}

type parsedOut struct {
	HeaderLines []string
	Points      []pointLine
	Diffs       []diffLine
	Nows        []nowLine
	Errs        []string // err:... lines
	Other       []string
}

type nowLine struct {
	Now  int64
	Name string // srcRel or item
	Dest string
	Line int // index of the line in the output
	// slices of Points/Diffs that follow this now line (until the next one)
	PointsFrom, DiffsFrom int
}

func parseOutput(s string) parsedOut {
	var p parsedOut
	for i, ln := range strings.Split(strings.TrimRight(s, "\n"), "\n") {
		if ln == "" {
			continue
		}
		if m := pointRe.FindStringSubmatch(ln); m != nil {
			a, _ := strconv.Atoi(m[1])
			t, ok := parseTime(m[2])
			v, err := strconv.ParseFloat(m[3], 64)
			if ok && err == nil {
				p.Points = append(p.Points, pointLine{a, t, v, ln})
				continue
			}
		}
		if m := diffRe.FindStringSubmatch(ln); m != nil {
			a, _ := strconv.Atoi(m[1])
			t, ok := parseTime(m[2])
			sv, e1 := strconv.ParseFloat(m[3], 64)
			dv, e2 := strconv.ParseFloat(m[4], 64)
			dm, e3 := strconv.ParseFloat(m[5], 64)
			if ok && e1 == nil && e2 == nil && e3 == nil {
				p.Diffs = append(p.Diffs, diffLine{a, t, sv, dv, dm, ln})
				continue
			}
		}
		if m := nowRe.FindStringSubmatch(ln); m != nil {
			if t, ok := parseTime(m[1]); ok {
				p.Nows = append(p.Nows, nowLine{Now: t, Name: m[3], Dest: m[4], Line: i, PointsFrom: len(p.Points), DiffsFrom: len(p.Diffs)})
				continue
			}
		}
		switch {
		case strings.HasPrefix(ln, "aggMethod:") || strings.HasPrefix(ln, "archiveInfo:"):
			p.HeaderLines = append(p.HeaderLines, ln)
		case strings.HasPrefix(ln, "err:"):
			p.Errs = append(p.Errs, ln)
		default:
			p.Other = append(p.Other, ln)
		}
	}
	return p
}

// headerText renders the header lines view prints, from the harness' own knowledge of the layout.
func headerText(l model.Layout) []string {
	lines := []string{fmt.Sprintf("aggMethod:%s\taggMethodNum:%d\tmaxRetention:%s\txFileFactor:%s\tarchiveCount:%d",
		model.MethodNames[l.Method], l.Method, durText(l.MaxRet()), strconv.FormatFloat(float64(l.Xff), 'f', -1, 32), len(l.Archs))}
	offs := l.Offsets()
	for i, a := range l.Archs {
		lines = append(lines, fmt.Sprintf("archiveInfo:%d\tdurationPerPoint:%s\tnumberOfPoints:%d\toffset:%d", i, durText(int64(a.Step)), a.Points, offs[i]))
	}
	return lines
}

// durText prints a duration with the largest dividing unit (independent re-implementation).
func durText(d int64) string {
	if d == 0 {
		return "0s"
	}
	for _, u := range []struct {
		n int64
		s string
	}{{31536000, "y"}, {604800, "w"}, {86400, "d"}, {3600, "h"}, {60, "m"}} {
		if d%u.n == 0 {
			return fmt.Sprintf("%d%s", d/u.n, u.s)
		}
	}
	return fmt.Sprintf("%ds", d)
}

// ---------------------------------------------------------------------------
// fixtures

// cliLayout: small files with small steps so that windows are cheap and phases vary.
func cliLayout(r *rand.Rand) model.Layout {
	var l model.Layout
	l.Method = 1 + r.Intn(6)
	l.Xff = []float32{0, 0.25, 0.5, 1}[r.Intn(4)]
	k := 1 + r.Intn(3)
	step := []uint32{1, 2, 5, 10, 60}[r.Intn(5)]
	pts := uint32(6 + r.Intn(60))
	for i := 0; i < k; i++ {
		l.Archs = append(l.Archs, model.Arch{Step: step, Points: pts})
		ratio := []uint32{2, 3, 5, 6}[r.Intn(4)]
		if pts < ratio {
			pts = ratio
			l.Archs[i].Points = pts
		}
		npts := pts/ratio + 1 + uint32(r.Intn(20))
		step *= ratio
		pts = npts
	}
	if v, why := model.ValidLayout(l.Archs); v != model.Valid {
		panic("cliLayout invalid: " + why)
	}
	return l
}

// slotContent describes what a fixture holds: per archive, interval -> value bits.
type slotContent []map[int64]float64

// writeFixture creates a file and writes content archive by archive, coarsest first, so that
// coarser archives are NOT the aggregate of the finer ones unless the content says so.
// (Writing a finer archive propagates into coarser ones; those are then overwritten/reset.)
func writeFixture(path string, l model.Layout, content slotContent, now int64) {
	mustMkdir(filepath.Dir(path))
	os.Remove(path)
	db, err := createFile(path, l)
	if err != nil {
		panic(fmt.Sprintf("fixture create %s: %v", path, err))
	}
	// finest first (propagates), then every coarser archive is rewritten explicitly for all its
	// live slots: content value where given, NaN elsewhere
	for ai := range l.Archs {
		a := l.Archs[ai]
		var pts []wt.Point
		if ai == 0 {
			for t, v := range content[ai] {
				pts = append(pts, wt.Point{Time: u32(t), Value: wt.Value(v)})
			}
		} else {
			lo := model.AlignNext(now-a.Ret(), a.Step)
			for t := lo; t <= now; t += int64(a.Step) {
				v, ok := content[ai][t]
				if !ok {
					v = math.NaN()
				}
				pts = append(pts, wt.Point{Time: u32(t), Value: wt.Value(v)})
			}
		}
		if err := db.UpdatePointsForArchive(pts, ai, u32(now)); err != nil {
			panic(err)
		}
	}
	if err := db.Sync(); err != nil {
		panic(err)
	}
	db.Close()
}

// genContent produces sparse content with values in [0,1000) (dyadic fractions so sums are exact).
func genContent(r *rand.Rand, l model.Layout, now int64, density float64) slotContent {
	c := make(slotContent, len(l.Archs))
	for ai, a := range l.Archs {
		c[ai] = map[int64]float64{}
		lo := model.AlignNext(now-a.Ret(), a.Step)
		for t := lo; t <= now; t += int64(a.Step) {
			if r.Float64() < density {
				c[ai][t] = float64(r.Intn(8000)) / 8
			}
		}
	}
	return c
}

func cloneContent(c slotContent) slotContent {
	o := make(slotContent, len(c))
	for i := range c {
		o[i] = map[int64]float64{}
		for k, v := range c[i] {
			o[i][k] = v
		}
	}
	return o
}

// fetchArchives reads the selected archives of a file with the library at an explicit clock.
// Result entries are nil for unselected archives or absent series.
func fetchArchives(path string, sel int, from, until, now int64) ([]*wt.TimeSeries, *wt.Header, error) {
	db, err := wt.Open(path, wt.WithoutFlock())
	if err != nil {
		return nil, nil, err
	}
	defer db.Close()
	n := len(db.ArchiveInfoList())
	out := make([]*wt.TimeSeries, n)
	for i := 0; i < n; i++ {
		if sel != -1 && sel != i {
			continue
		}
		ts, err := db.FetchFromArchive(i, u32(from), u32(until), u32(now))
		if err != nil {
			return nil, nil, err
		}
		out[i] = ts
	}
	h := *db.Header()
	return out, &h, nil
}

func valEq(a, b float64) bool {
	if math.IsNaN(a) || math.IsNaN(b) {
		return math.IsNaN(a) && math.IsNaN(b)
	}
	return a == b
}

func readFileOrNil(p string) []byte {
	b, err := os.ReadFile(p)
	if err != nil {
		return nil
	}
	return b
}

// ---------------------------------------------------------------------------
// one real server per worker process, serving <worker tmp>/served

// workerServer returns the base URL and served directory of this worker's server child
// (started lazily from the freshly built binary; it dies with the worker).
func workerServer(c *fw.Ctx) (baseURL, servedDir string, ok bool) {
	if v, has := c.Env.State["server_url"]; has {
		return v.(string), c.Env.State["server_dir"].(string), true
	}
	dir := filepath.Join(c.Env.Tmp, "served")
	mustMkdir(dir)
	cmd, u, out, err := startServer(cliBin(c), dir, os.Environ())
	if err != nil {
		c.Inconclusive("cannot start whispertool server: " + err.Error())
		return "", "", false
	}
	c.Env.State["server_url"] = u
	c.Env.State["server_dir"] = dir
	c.Env.State["server_cmd"] = cmd
	c.Env.State["server_out"] = out
	return u, dir, true
}

// workerServer1P is a second per-worker server restricted to one scheduler thread (GOMAXPROCS=1, the
// one-CPU deployment): handlers interleave only at blocking points, which exposes state shared between requests.
func workerServer1P(c *fw.Ctx) (baseURL, servedDir string, ok bool) {
	if v, has := c.Env.State["server1p_url"]; has {
		return v.(string), c.Env.State["server1p_dir"].(string), true
	}
	dir := filepath.Join(c.Env.Tmp, "served1p")
	mustMkdir(dir)
	cmd, u, out, err := startServer(cliBin(c), dir, append(os.Environ(), "GOMAXPROCS=1"))
	if err != nil {
		c.Inconclusive("cannot start whispertool server: " + err.Error())
		return "", "", false
	}
	c.Env.State["server1p_url"] = u
	c.Env.State["server1p_dir"] = dir
	c.Env.State["server1p_cmd"] = cmd
	c.Env.State["server1p_out"] = out
	// delay injected at an existing suspension point: every write(2) of this server (socket writes) takes 20 ms
	// longer, as with a slow peer, so other handlers run between a handler's last statement and its response leaving
	if sp, err := exec.LookPath("strace"); err == nil {
		tr := exec.Command(sp, "-f", "-p", strconv.Itoa(cmd.Process.Pid), "-o", "/dev/null", "-e", "trace=write", "-e", "inject=write:delay_enter=20000")
		tr.SysProcAttr = &syscall.SysProcAttr{Pdeathsig: syscall.SIGKILL}
		if tr.Start() == nil {
			go tr.Wait()
			time.Sleep(300 * time.Millisecond)
			c.Env.State["server1p_delay"] = true
		}
	}
	return u, dir, true
}

// server1PDelayed tells whether the single-threaded server runs with delayed socket writes.
func server1PDelayed(c *fw.Ctx) bool { _, ok := c.Env.State["server1p_delay"]; return ok }

// withServerNoise runs f while several clients keep asking the server at base for the given served files (view and
// view-raw of every archive): whatever a request handler shares with other requests is then shared with these.
// The responses are only counted; the files are never modified.
func withServerNoise(c *fw.Ctx, base string, files []string, f func()) {
	if len(files) == 0 {
		f()
		return
	}
	stop := make(chan struct{})
	var wg sync.WaitGroup
	var done int64
	client := &http.Client{Timeout: 30 * time.Second, Transport: &http.Transport{MaxIdleConnsPerHost: 8}}
	for g := 0; g < 6; g++ {
		wg.Add(1)
		go func(g int) {
			defer wg.Done()
			for k := g; ; k++ {
				select {
				case <-stop:
					return
				default:
				}
				file := files[k%len(files)]
				now := time.Now().Unix()
				u := fmt.Sprintf("%s/view?file=%s&retention=-1&from=%s&until=%s&now=%s", base, url.QueryEscape(file), url.QueryEscape(tsArg(0)), url.QueryEscape(tsArg(now)), url.QueryEscape(tsArg(now)))
				if k%5 == 4 {
					u = fmt.Sprintf("%s/view-raw?file=%s&retention=-1", base, url.QueryEscape(file))
				}
				resp, err := client.Get(u)
				if err != nil {
					continue
				}
				io.Copy(io.Discard, resp.Body)
				resp.Body.Close()
				atomic.AddInt64(&done, 1)
			}
		}(g)
	}
	f()
	close(stop)
	wg.Wait()
	client.CloseIdleConnections()
	c.Count("concurrent_noise_requests_served", atomic.LoadInt64(&done))
}

// breakingListingProxy forwards every request to the server at u, except that the text listings of /files and /items
// break off: the full Content-Length is announced, the first half of the lines (complete lines only) is sent and the
// connection is closed - a peer that dies in the middle of its answer.
func breakingListingProxy(u string) *httptest.Server {
	return httptest.NewServer(http.HandlerFunc(func(w http.ResponseWriter, req *http.Request) {
		resp, err := http.Get(u + req.URL.RequestURI())
		if err != nil {
			http.Error(w, err.Error(), http.StatusBadGateway)
			return
		}
		body, _ := io.ReadAll(resp.Body)
		resp.Body.Close()
		if (req.URL.Path == "/files" || req.URL.Path == "/items") && resp.StatusCode == 200 {
			lines := bytes.SplitAfter(body, []byte("\n"))
			var half []byte
			for _, ln := range lines[:len(lines)/2] {
				half = append(half, ln...)
			}
			if hj, ok := w.(http.Hijacker); ok {
				if conn, buf, err := hj.Hijack(); err == nil {
					fmt.Fprintf(buf, "HTTP/1.1 200 OK\r\nContent-Type: text/plain; charset=utf-8\r\nContent-Length: %d\r\n\r\n", len(body))
					buf.Write(half)
					buf.Flush()
					conn.Close()
					return
				}
			}
		}
		for k, v := range resp.Header {
			w.Header()[k] = v
		}
		w.WriteHeader(resp.StatusCode)
		w.Write(body)
	}))
}

// serverOutput returns what the worker's server printed so far (for panic scanning).
func serverOutput(c *fw.Ctx) string {
	s := ""
	for _, k := range []string{"server_out", "server1p_out"} {
		if v, has := c.Env.State[k]; has {
			s += v.(*bytes.Buffer).String()
		}
	}
	return s
}
