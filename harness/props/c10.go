package props

import (
	"fmt"
	"math"
	"math/rand"
	"os"
	"path/filepath"
	"sort"
	"strconv"
	"strings"
	"sync"
	"time"

	wt "github.com/hnakamur/whispertool"
	wcmd "github.com/hnakamur/whispertool/cmd"

	"verifharness/fw"
	"verifharness/model"
)

// C10 sum is the slot-wise NaN-skipping sum of the matched files.

type c10 struct{}

func init() { fw.Register(c10{}) }

func (c10) Meta() fw.Meta {
	return fw.Meta{
		ID: "C10",
		Rule: "case = a tree of 2-4 item directories (one nested) with 1-12 files of one layout each; values are integers / dyadic fractions (addition exact in any order) with arbitrary NaN holes incl. slots where every file is NaN, exactly one file (first, middle or last in glob order) has a value, and the FIRST file has the hole. " +
			"drivers: (a) cmd.sumWhisperFile through the verif export hook at a virtual clock for ~12 (archive selection, window) combinations incl. retention edges; (b) the real sum binary at wall clock with clean and unclean spellings of the base directory (trailing /, /., //), -archive all/one, windows, item patterns matching one/all/none. " +
			"oracle: per archive the series has the C04 shape of that archive and at every slot the sum of the files' fetched values that are not NaN (NaN iff none); a single file sums bit-exactly to its own fetch; a file with another layout => error for every window and archive selection (also narrow windows in which all files yield the same shape); file patterns with a directory component sum exactly the matched files; item or file pattern matching nothing => an error with os.IsNotExist (function) / exit 2 (CLI). " +
			"non-trivial = item with >= 3 files in which some slot had exactly one contributor and some slot none; distinct by tree + clock." +
			" Every 4th case sums through the delayed single-threaded server with concurrent clients, incl. an item of 2500-4500-point archives; every 3rd case runs eight sums that fail (archive id no file has) and then the valid sum again under a 90 s watchdog." +
			" Trees contain a symlinked source file, a symlinked item directory (every 2nd tree) and the item grpF (values 1, 1e17, -1e17 in name order) which is also summed while its first file is locked; every remote stage runs two sums of one item in flight at once that differ only in their clock." +
			" One item holds files of equal archives but different method/xFilesFactor; files of one item fetched with different shapes are reported as such.",
		Assumptions: []string{
			"values are chosen so that floating-point addition is exact: the property is about WHICH values are added, not about association order",
			"directory names contain no dots (items are dotted paths)",
		},
		Obligations: []string{"function_sums", "cli_sums", "slots_summed", "slot_all_nan", "slot_single_contributor", "first_file_hole", "single_file_item", "layout_mismatch_rejected", "no_match_item", "no_match_file", "unclean_base_spelling", "single_archive_selection", "edge_window", "file_pattern_with_directory", "remote_sums", "slow_first_item_runs", "remote_sums_with_concurrent_clients", "server_socket_writes_delayed", "concurrent_noise_requests_served", "remote_sums_of_long_archives", "sums_after_failed_reads", "symlinked_source_files", "concurrent_remote_sums_differing_in_clock", "order_sensitive_sums_with_first_file_read_last"},
		Workers:     12,
	}
}

func (c10) Cases(tier string) int {
	if tier == "thorough" {
		return 15000
	}
	return 240
}

type sumTree struct {
	Base  string
	L     model.Layout
	Items map[string][]string // item dir (path syntax) -> file names (sorted)
	Now   int64
}

// buildSumTree creates the tree; contents are fixed at clock now.
func buildSumTree(r *rand.Rand, base string, l model.Layout, now int64, c *fw.Ctx) sumTree {
	t := sumTree{Base: base, L: l, Items: map[string][]string{}, Now: now}
	dirs := []string{"grpA", "grpB", filepath.Join("nest", "leaf")}
	if r.Intn(2) == 0 {
		dirs = append(dirs, "grpC")
	}
	// "grpF": three files whose values do not add associatively (1, 1e17, -1e17 in name order: (1+1e17)-1e17 = 0 but
	// (1e17-1e17)+1 = 1): the sum is the fold in file-name order, whichever file happens to be read first
	dirs = append(dirs, "grpF")
	for di, d := range dirs {
		n := 1 + r.Intn(12)
		if di == 0 {
			n = 3 + r.Intn(6)
		}
		if d == "grpF" {
			n = 3
		}
		if di == 1 && r.Intn(2) == 0 {
			n = 1
		}
		// per-slot contributor plan over the finest archive and coarser ones alike
		conts := make([]slotContent, n)
		for i := range conts {
			conts[i] = make(slotContent, len(l.Archs))
			for ai := range l.Archs {
				conts[i][ai] = map[int64]float64{}
			}
		}
		for ai, a := range l.Archs {
			lo := model.AlignNext(now-a.Ret(), a.Step)
			for ts := lo; ts <= now; ts += int64(a.Step) {
				switch r.Intn(6) {
				case 0: // nobody
				case 1: // exactly one contributor: first, middle or last
					who := []int{0, n / 2, n - 1}[r.Intn(3)]
					conts[who][ai][ts] = float64(r.Intn(4000)) / 4
				case 2: // everybody but the first
					for i := 1; i < n; i++ {
						conts[i][ai][ts] = float64(r.Intn(4000)) / 4
					}
				default:
					for i := 0; i < n; i++ {
						if r.Intn(3) != 0 {
							conts[i][ai][ts] = float64(r.Intn(4000)) / 4
						}
					}
				}
			}
		}
		if d == "grpF" {
			for i := range conts {
				for ai, a := range l.Archs {
					conts[i][ai] = map[int64]float64{}
					lo := model.AlignNext(now-a.Ret(), a.Step)
					for ts := lo; ts <= now; ts += int64(a.Step) {
						conts[i][ai][ts] = []float64{1, 1e17, -1e17}[i]
					}
				}
			}
		}
		var names []string
		for i := 0; i < n; i++ {
			name := fmt.Sprintf("h%02d.wsp", i)
			names = append(names, name)
			li := l
			if di == 1 && i == 0 {
				// same archives, another aggregation method and xFilesFactor: still "files with identical layouts"
				li.Method = 1 + (l.Method+2)%6
				li.Xff = []float32{0, 0.25, 0.75}[r.Intn(3)]
				if c != nil {
					c.Count("items_with_files_of_different_method_or_xff", 1)
				}
			}
			if di == 0 && i == 1 {
				// one source of the first item is a symbolic link to a whisper file stored elsewhere
				real := filepath.Join(base+"-real", d, name)
				writeFixture(real, li, conts[i], now)
				mustMkdir(filepath.Join(base, d))
				os.Remove(filepath.Join(base, d, name))
				if err := os.Symlink(real, filepath.Join(base, d, name)); err != nil {
					panic(err)
				}
				if c != nil {
					c.Count("symlinked_source_files", 1)
				}
				continue
			}
			writeFixture(filepath.Join(base, d, name), li, conts[i], now)
		}
		sort.Strings(names)
		t.Items[d] = names
	}
	// one item directory is a symbolic link to a directory stored elsewhere
	if r.Intn(2) == 0 {
		real := filepath.Join(base+"-real", "grpB-dir")
		mustMkdir(filepath.Dir(real))
		if err := os.Rename(filepath.Join(base, "grpB"), real); err == nil {
			if err := os.Symlink(real, filepath.Join(base, "grpB")); err != nil {
				panic(err)
			}
			if c != nil {
				c.Count("symlinked_item_directories", 1)
			}
		}
	}
	return t
}

// expectedSum folds the per-file fetches left to right.
func expectedSum(t sumTree, dir string, sel int, from, until, now int64, c *fw.Ctx) ([]*wt.TimeSeries, bool) {
	names := t.Items[dir]
	var acc []*wt.TimeSeries
	interesting1, interesting0 := false, false
	for i, n := range names {
		ts, _, err := fetchArchives(filepath.Join(t.Base, dir, n), sel, from, until, now)
		if err != nil {
			panic(err)
		}
		if i == 0 {
			acc = make([]*wt.TimeSeries, len(ts))
			for ai := range ts {
				if ts[ai] != nil {
					acc[ai] = wt.NewTimeSeries(ts[ai].FromTime(), ts[ai].UntilTime(), ts[ai].Step(), append([]wt.Value(nil), ts[ai].Values()...))
				}
			}
			continue
		}
		for ai := range ts {
			if ts[ai] == nil || acc[ai] == nil {
				continue
			}
			vals := acc[ai].Values()
			if len(ts[ai].Values()) != len(vals) || ts[ai].FromTime() != acc[ai].FromTime() || ts[ai].Step() != acc[ai].Step() {
				// files of one layout, one window, one clock: the library must give their series one shape (C04); a sum
				// over them cannot be formed otherwise
				if c != nil {
					c.Violationf("files-of-one-layout-fetch-different-shapes", fw.J{"item": dir, "file": n, "archive": ai, "from": from, "until": until, "now": now,
						"first_file_shape": fmt.Sprintf("from %d step %d n=%d", acc[ai].FromTime(), acc[ai].Step(), len(vals)),
						"this_file_shape":  fmt.Sprintf("from %d step %d n=%d", ts[ai].FromTime(), ts[ai].Step(), len(ts[ai].Values()))},
						"item %s archive %d window [%d,%d]: file %s is fetched with another shape than the first file of the item", dir, ai, from, until, n)
				}
				return acc, false
			}
			for j, v := range ts[ai].Values() {
				switch {
				case math.IsNaN(float64(vals[j])):
					vals[j] = v
				case !math.IsNaN(float64(v)):
					vals[j] += v
				}
			}
		}
	}
	// coverage: contributors per slot
	if len(names) >= 1 {
		per := make([][]*wt.TimeSeries, len(names))
		for i, n := range names {
			per[i], _, _ = fetchArchives(filepath.Join(t.Base, dir, n), sel, from, until, now)
		}
		for ai := range acc {
			if acc[ai] == nil {
				continue
			}
			for j := range acc[ai].Values() {
				k := 0
				firstHole := false
				for i := range names {
					if per[i][ai] == nil {
						continue
					}
					if !math.IsNaN(float64(per[i][ai].Values()[j])) {
						k++
					} else if i == 0 {
						firstHole = true
					}
				}
				c.Count("slots_summed", 1)
				if k == 0 {
					c.Count("slot_all_nan", 1)
					interesting0 = true
				}
				if k == 1 && len(names) > 1 {
					c.Count("slot_single_contributor", 1)
					interesting1 = true
				}
				if firstHole && k > 0 {
					c.Count("first_file_hole", 1)
				}
			}
		}
	}
	return acc, interesting0 && interesting1 && len(names) >= 3
}

func seriesEqual(a, b *wt.TimeSeries) string {
	an, bn := a == nil || (a.Step() == 0 && len(a.Values()) == 0), b == nil || (b.Step() == 0 && len(b.Values()) == 0)
	if an || bn {
		if an != bn {
			return fmt.Sprintf("one series absent, the other not (%v vs %v)", a, b)
		}
		return ""
	}
	if a.FromTime() != b.FromTime() || a.UntilTime() != b.UntilTime() || a.Step() != b.Step() || len(a.Values()) != len(b.Values()) {
		return fmt.Sprintf("shape (%d,%d,%d,n=%d) vs (%d,%d,%d,n=%d)", a.FromTime(), a.UntilTime(), a.Step(), len(a.Values()), b.FromTime(), b.UntilTime(), b.Step(), len(b.Values()))
	}
	for j := range a.Values() {
		x, y := float64(a.Values()[j]), float64(b.Values()[j])
		if !(math.IsNaN(x) && math.IsNaN(y)) && math.Float64bits(x) != math.Float64bits(y) {
			return fmt.Sprintf("slot %d (t=%d): %v vs %v (bits %016x vs %016x)", j, int64(a.FromTime())+int64(j)*int64(a.Step()), x, y, math.Float64bits(x), math.Float64bits(y))
		}
	}
	return ""
}

// seriesEqualNumeric is seriesEqual with IEEE equality for the values (+0 equals -0; NaN matches NaN): the relation the
// copy commands themselves use to decide whether a destination slot already holds the source's value.
func seriesEqualNumeric(a, b *wt.TimeSeries) string {
	msg := seriesEqual(a, b)
	if msg == "" || a == nil || b == nil || len(a.Values()) != len(b.Values()) || a.FromTime() != b.FromTime() || a.Step() != b.Step() {
		return msg
	}
	for j := range a.Values() {
		if !valEq(float64(a.Values()[j]), float64(b.Values()[j])) {
			return msg
		}
	}
	return ""
}

func dotted(dir string) string { return strings.ReplaceAll(dir, string(filepath.Separator), ".") }

func (c10) Run(c *fw.Ctx) {
	r := c.Rng
	if c.Env.State["c10_reader_hung"] != nil {
		// an earlier case of this worker convicted the shared read path of not returning: every further sum would block
		c.Count("cases_skipped_after_hang", 1)
		return
	}
	base := filepath.Join(c.TmpDir(), "tree")
	l := cliLayout(r)

	// ---------------- (a) function level, virtual clock
	vnow := genClock(r, l)
	if vnow > 4000000000 {
		vnow = 1600000000 + int64(r.Intn(100000000))
	}
	vt := buildSumTree(r, filepath.Join(base, "v"), l, vnow, c)
	nontrivial := false
	for q := 0; q < 12 && !c.Violated(); q++ {
		var dirs []string
		for d := range vt.Items {
			dirs = append(dirs, d)
		}
		sort.Strings(dirs)
		d := dirs[r.Intn(len(dirs))]
		sel := -1
		if r.Intn(3) == 0 {
			sel = r.Intn(len(l.Archs))
			c.Count("single_archive_selection", 1)
		}
		a := l.Archs[r.Intn(len(l.Archs))]
		var from, until int64
		switch r.Intn(5) {
		case 0:
			from, until = 0, vnow
		case 1: // retention edge
			from, until = vnow-a.Ret()-int64(r.Intn(3)), vnow-a.Ret()+int64(r.Intn(int(a.Step)*3+1))
			c.Count("edge_window", 1)
		case 2:
			from = vnow - r.Int63n(a.Ret()+1)
			until = from
		default:
			from = vnow - r.Int63n(l.MaxRet()+1)
			until = from + r.Int63n(vnow-from+1)
		}
		if from < 0 {
			from = 0
		}
		want, nt := expectedSum(vt, d, sel, from, until, vnow, c)
		nontrivial = nontrivial || nt
		h, got, err := wcmd.VerifSumWhisperFile(vt.Base, dotted(d), "*.wsp", sel, u32(from), u32(until), u32(vnow))
		c.Count("function_sums", 1)
		det := fw.J{"layout": l, "item": d, "files": vt.Items[d], "archive": sel, "from": from, "until": until, "now": vnow}
		if err != nil {
			c.Violationf("sum-error", det, "sumWhisperFile failed on a well-formed item: %v", err)
			return
		}
		if !h.ArchiveInfoList().Equal(archiveInfoList(l)) {
			c.Violationf("sum-header", det, "sum header has another archive list")
		}
		for ai := range l.Archs {
			if msg := seriesEqual(got[ai], want[ai]); msg != "" {
				det["archive_index"] = ai
				c.Violationf("sum-differs", det, "item %s (%d files) archive %d: sum differs from the slot-wise NaN-skipping sum: %s", d, len(vt.Items[d]), ai, msg)
				return
			}
		}
		if len(vt.Items[d]) == 1 {
			c.Count("single_file_item", 1)
		}
	}
	// the order-sensitive item summed while its FIRST file is locked for a moment (it is read last): the sum is still the
	// fold in file-name order
	if !c.Violated() {
		want, _ := expectedSum(vt, "grpF", -1, 0, vnow, vnow, c)
		if hold, err := wt.Open(filepath.Join(vt.Base, "grpF", vt.Items["grpF"][0])); err == nil {
			go func() { time.Sleep(120 * time.Millisecond); hold.Close() }()
			_, got, err := wcmd.VerifSumWhisperFile(vt.Base, "grpF", "*.wsp", -1, 0, u32(vnow), u32(vnow))
			c.Count("order_sensitive_sums_with_first_file_read_last", 1)
			if err != nil {
				c.Violationf("sum-error", fw.J{"item": "grpF", "err": err.Error()}, "sum failed: %v", err)
				return
			}
			for ai := range l.Archs {
				if msg := seriesEqual(got[ai], want[ai]); msg != "" {
					c.Violationf("sum-differs", fw.J{"item": "grpF", "archive": ai, "values": "1, 1e17, -1e17 in file-name order", "first_file": "locked for 120 ms"},
						"sum of values that do not add associatively, first file read last, archive %d: %s", ai, msg)
					return
				}
			}
		}
	}
	// the same sums through a real server, with item and file names that need escaping in the query
	srv := workerServer
	if c.Index%4 == 0 {
		srv = workerServer1P // one scheduler thread, delayed socket writes, other clients reading meanwhile
	}
	if u, served, ok := srv(c); ok && c.Index%2 == 0 {
		name := fmt.Sprintf("c10-%d", c.Index)
		link := filepath.Join(served, name)
		os.Symlink(vt.Base, link)
		defer os.Remove(link)
		odd := sumTree{Base: vt.Base, L: l, Items: map[string][]string{"cpu+load&x": nil}, Now: vnow}
		for _, fn := range []string{"a+b.wsp", "c d.wsp", "e&f.wsp"} {
			writeFixture(filepath.Join(vt.Base, "cpu+load&x", fn), l, genContent(r, l, vnow, 0.6), vnow)
			odd.Items["cpu+load&x"] = append(odd.Items["cpu+load&x"], fn)
		}
		sort.Strings(odd.Items["cpu+load&x"])
		var noise []string
		if c.Index%4 == 0 {
			for d, fs := range vt.Items {
				for _, fn := range fs {
					if len(noise) < 6 {
						noise = append(noise, filepath.Join(name, strings.ReplaceAll(d, ".", "/"), fn))
					}
				}
			}
			sort.Strings(noise)
			c.Count("remote_sums_with_concurrent_clients", 1)
			if server1PDelayed(c) {
				c.Count("server_socket_writes_delayed", 1)
			}
		}
		withServerNoise(c, u, noise, func() {
			for _, q := range []struct{ item, pat string }{{"cpu+load&x", "*.wsp"}, {"cpu+load&x", "a+*.wsp"}, {"grpA", "*.wsp"}} {
				tree := vt
				if q.item == "cpu+load&x" {
					tree = odd
					if q.pat == "a+*.wsp" {
						tree = sumTree{Base: vt.Base, L: l, Items: map[string][]string{q.item: {"a+b.wsp"}}, Now: vnow}
					}
				}
				want, _ := expectedSum(tree, q.item, -1, 0, vnow, vnow, c)
				_, got, err := wcmd.VerifSumWhisperFile(u, name+"."+q.item, q.pat, -1, 0, u32(vnow), u32(vnow))
				c.Count("remote_sums", 1)
				det := fw.J{"item": q.item, "pattern": q.pat, "via": "server"}
				if err != nil {
					c.Violationf("remote-sum-error", det, "sum of item %q pattern %q through the server failed: %v", q.item, q.pat, err)
					break
				}
				for ai := range l.Archs {
					if msg := seriesEqual(got[ai], want[ai]); msg != "" {
						c.Violationf("sum-differs", det, "remote sum of item %q pattern %q archive %d differs: %s", q.item, q.pat, ai, msg)
						break
					}
				}
			}
		})
		if !c.Violated() {
			// two sums of the same item, pattern and window in flight at once, differing ONLY in the clock they name (the
			// first source is locked for a moment so that both are being served together): each is answered for its clock
			a0 := l.Archs[0]
			nowA, nowB := vnow, vnow+int64(a0.Step)*int64(2+r.Intn(5))
			if nowB+2*l.MaxStep() < 1<<32 {
				wantA, _ := expectedSum(vt, "grpA", -1, 0, nowA+500, nowA, c)
				wantB, _ := expectedSum(vt, "grpA", -1, 0, nowA+500, nowB, c)
				if hold, err := wt.Open(filepath.Join(vt.Base, "grpA", vt.Items["grpA"][0])); err == nil {
					var gotA, gotB wcmd.TimeSeriesList
					var errA, errB error
					var wg sync.WaitGroup
					wg.Add(2)
					go func() {
						defer wg.Done()
						_, gotA, errA = wcmd.VerifSumWhisperFile(u, name+".grpA", "*.wsp", -1, 0, u32(nowA+500), u32(nowA))
					}()
					go func() {
						defer wg.Done()
						time.Sleep(50 * time.Millisecond)
						_, gotB, errB = wcmd.VerifSumWhisperFile(u, name+".grpA", "*.wsp", -1, 0, u32(nowA+500), u32(nowB))
					}()
					time.Sleep(time.Duration(250+r.Intn(150)) * time.Millisecond)
					hold.Close()
					wg.Wait()
					c.Count("concurrent_remote_sums_differing_in_clock", 1)
					if errA != nil || errB != nil {
						c.Violationf("remote-sum-error", fw.J{"errA": fmt.Sprint(errA), "errB": fmt.Sprint(errB)}, "concurrent remote sums failed: %v / %v", errA, errB)
					} else {
						for ai := range l.Archs {
							if msg := seriesEqual(gotA[ai], wantA[ai]); msg != "" {
								c.Violationf("sum-differs", fw.J{"via": "server, two sums in flight", "clock": nowA, "other_clock": nowB, "archive": ai}, "remote sum at clock %d (another sum of the same item at clock %d in flight), archive %d differs: %s", nowA, nowB, ai, msg)
								break
							}
							if msg := seriesEqual(gotB[ai], wantB[ai]); msg != "" {
								c.Violationf("sum-differs", fw.J{"via": "server, two sums in flight", "clock": nowB, "other_clock": nowA, "archive": ai}, "remote sum at clock %d (another sum of the same item at clock %d in flight), archive %d differs: %s", nowB, nowA, ai, msg)
								break
							}
						}
					}
				}
			}
		}
		if c.Index%4 == 0 && !c.Violated() {
			// long archives (responses of tens of kilobytes, written to the socket in several delayed writes) summed
			// while other clients fetch the very files being summed
			bl := model.Layout{Archs: []model.Arch{{Step: 1, Points: uint32(2500 + r.Intn(2000))}, {Step: 60, Points: uint32(200 + r.Intn(200))}}, Method: l.Method, Xff: 0.5}
			bnow := vnow
			if bnow < bl.MaxRet()+2*bl.MaxStep() {
				bnow = bl.MaxRet() + 2*bl.MaxStep() + 1000
			}
			bt := sumTree{Base: vt.Base, L: bl, Items: map[string][]string{"big": nil}, Now: bnow}
			var bnoise []string
			for _, fn := range []string{"x.wsp", "y.wsp", "z.wsp"} {
				writeFixture(filepath.Join(vt.Base, "big", fn), bl, genContent(r, bl, bnow, 0.8), bnow)
				bt.Items["big"] = append(bt.Items["big"], fn)
				bnoise = append(bnoise, filepath.Join(name, "big", fn))
			}
			want, _ := expectedSum(bt, "big", -1, 0, bnow, bnow, c)
			withServerNoise(c, u, bnoise, func() {
				for q := 0; q < 4 && !c.Violated(); q++ {
					_, got, err := wcmd.VerifSumWhisperFile(u, name+".big", "*.wsp", -1, 0, u32(bnow), u32(bnow))
					c.Count("remote_sums", 1)
					c.Count("remote_sums_of_long_archives", 1)
					det := fw.J{"item": "big", "layout": bl.String(), "via": "server, with concurrent clients"}
					if err != nil {
						c.Violationf("remote-sum-error", det, "sum of long archives through the server failed: %v", err)
						break
					}
					for ai := range bl.Archs {
						if msg := seriesEqual(got[ai], want[ai]); msg != "" {
							c.Violationf("sum-differs", det, "remote sum of long archives, archive %d differs: %s", ai, msg)
							break
						}
					}
				}
			})
			os.RemoveAll(filepath.Join(vt.Base, "big"))
		}
	}
	// failing reads (an archive id no file has) must not wear the reader out: after many of them a valid sum still
	// returns, with the same result as before
	if c.Index%3 == 1 && !c.Violated() {
		var first string
		for d := range vt.Items {
			if first == "" || d < first {
				first = d
			}
		}
		done := make(chan string, 1)
		go func() {
			_, before, err := wcmd.VerifSumWhisperFile(vt.Base, dotted(first), "*.wsp", -1, 0, u32(vnow), u32(vnow))
			if err != nil {
				done <- "valid sum failed: " + err.Error()
				return
			}
			for q := 0; q < 8; q++ {
				if _, _, err := wcmd.VerifSumWhisperFile(vt.Base, dotted(first), "*.wsp", len(l.Archs)+1+q, 0, u32(vnow), u32(vnow)); err == nil {
					done <- "a sum naming an archive no file has succeeded"
					return
				}
			}
			_, after, err := wcmd.VerifSumWhisperFile(vt.Base, dotted(first), "*.wsp", -1, 0, u32(vnow), u32(vnow))
			if err != nil {
				done <- "valid sum failed after failing ones: " + err.Error()
				return
			}
			for ai := range l.Archs {
				if msg := seriesEqual(after[ai], before[ai]); msg != "" {
					done <- "the valid sum changed after failing ones: " + msg
					return
				}
			}
			done <- ""
		}()
		select {
		case msg := <-done:
			c.Count("sums_after_failed_reads", 1)
			if msg != "" {
				c.Violationf("sum-after-failed-reads", fw.J{"item": first, "what": msg}, "%s", msg)
			}
		case <-time.After(90 * time.Second):
			c.Violationf("sum-hangs-after-failed-reads", fw.J{"item": first}, "after sums that failed (archive id out of range) a valid sum of the same item did not return within 90 s")
			c.Env.State["c10_reader_hung"] = true
			return
		}
	}
	// nothing matched => not-exist
	if _, _, err := wcmd.VerifSumWhisperFile(vt.Base, "grpA", "zz*.wsp", -1, 0, u32(vnow), u32(vnow)); err == nil || !os.IsNotExist(err) {
		c.Violationf("no-match-not-notexist", fw.J{"err": fmt.Sprint(err)}, "a file pattern matching nothing gave %v, want an error satisfying os.IsNotExist", err)
	} else {
		c.Count("no_match_file", 1)
	}
	if _, err := wcmd.VerifGlobItems(vt.Base, "zz*"); err == nil || !os.IsNotExist(err) {
		c.Violationf("no-match-not-notexist", fw.J{"err": fmt.Sprint(err)}, "an item pattern matching nothing gave %v, want an error satisfying os.IsNotExist", err)
	} else {
		c.Count("no_match_item", 1)
	}
	// a file with another layout => error
	{
		other := model.Layout{Archs: append([]model.Arch(nil), l.Archs...), Method: l.Method, Xff: l.Xff}
		other.Archs[len(other.Archs)-1].Points += 1 + uint32(r.Intn(3))
		bad := filepath.Join(vt.Base, "grpA", "zzz-other.wsp")
		writeFixture(bad, other, genContent(r, other, vnow, 0.5), vnow)
		// default window, a narrow recent window (same fetched shape in every file) and single-archive selections
		a0 := l.Archs[0]
		for _, q := range []struct {
			sel         int
			from, until int64
		}{{-1, 0, vnow}, {-1, vnow - minI64(a0.Ret()/2, 3*int64(a0.Step)+1), vnow}, {0, vnow - minI64(a0.Ret()/2, 3*int64(a0.Step)+1), vnow}, {0, 0, vnow}} {
			if _, _, err := wcmd.VerifSumWhisperFile(vt.Base, "grpA", "*.wsp", q.sel, u32(q.from), u32(q.until), u32(vnow)); err == nil {
				c.Violationf("layout-mismatch-accepted", fw.J{"layout": l, "other": other, "archive": q.sel, "from": q.from, "until": q.until, "now": vnow},
					"sum over files with differing layouts succeeded (archive %d, window [%d,%d])", q.sel, q.from, q.until)
			} else {
				c.Count("layout_mismatch_rejected", 1)
			}
		}
		os.Remove(bad)
	}
	// a file pattern with a directory component: item grpD holds sub-directories s1..s3 with one file each
	{
		sub := sumTree{Base: vt.Base, L: l, Items: map[string][]string{"grpD": nil}, Now: vnow}
		for i := 1; i <= 3; i++ {
			rel := filepath.Join(fmt.Sprintf("s%d", i), "v.wsp")
			writeFixture(filepath.Join(vt.Base, "grpD", rel), l, genContent(r, l, vnow, 0.6), vnow)
			sub.Items["grpD"] = append(sub.Items["grpD"], rel)
		}
		for _, pat := range []string{"*/v.wsp", "s[12]/v.wsp", "s1/*.wsp"} {
			matched, _ := filepath.Glob(filepath.Join(vt.Base, "grpD", pat))
			sel := sumTree{Base: vt.Base, L: l, Items: map[string][]string{"grpD": nil}, Now: vnow}
			for _, m := range matched {
				rel, _ := filepath.Rel(filepath.Join(vt.Base, "grpD"), m)
				sel.Items["grpD"] = append(sel.Items["grpD"], rel)
			}
			want, _ := expectedSum(sel, "grpD", -1, 0, vnow, vnow, c)
			_, got, err := wcmd.VerifSumWhisperFile(vt.Base, "grpD", pat, -1, 0, u32(vnow), u32(vnow))
			det := fw.J{"item": "grpD", "pattern": pat, "matched": sel.Items["grpD"], "now": vnow}
			if err != nil {
				c.Violationf("sum-error", det, "sum with the file pattern %q (matching %d files) failed: %v", pat, len(matched), err)
				break
			}
			for ai := range l.Archs {
				if msg := seriesEqual(got[ai], want[ai]); msg != "" {
					c.Violationf("sum-differs", det, "file pattern %q: archive %d differs from the sum of the matched files: %s", pat, ai, msg)
					break
				}
			}
			c.Count("file_pattern_with_directory", 1)
		}
	}
	if c.Violated() {
		return
	}

	// ---------------- (b) the real binary at wall clock
	wnow := time.Now().Unix()
	wtBase := filepath.Join(base, "w")
	wtree := buildSumTree(r, wtBase, l, wnow, c)
	spell := wtBase
	switch c.Index % 4 {
	case 1:
		spell = wtBase + "/"
		c.Count("unclean_base_spelling", 1)
	case 2:
		spell = wtBase + "/."
		c.Count("unclean_base_spelling", 1)
	case 3:
		spell = filepath.Dir(wtBase) + "//" + filepath.Base(wtBase)
		c.Count("unclean_base_spelling", 1)
	}
	itemPat := []string{"grp*", "grpA", "nest/*", "*"}[r.Intn(4)]
	sel := -1
	if r.Intn(3) == 0 {
		sel = r.Intn(len(l.Archs))
	}
	args := []string{"sum", "-src-base", spell, "-item", itemPat, "-src", "*.wsp", "-archive", strconv.Itoa(sel)}
	var from, until int64
	if r.Intn(2) == 0 {
		a := l.Archs[0]
		until = wnow - r.Int63n(a.Ret()/2+1)
		from = until - r.Int63n(l.MaxRet()/2+1)
		if from < 1 {
			from = 1
		}
		args = append(args, "-from", tsArg(from), "-until", tsArg(until))
	}
	if c.Index%3 == 1 && from == 0 {
		// the first item is slow (its first file is locked by another handle for a moment): later items are
		// summed at a later clock, and each item's window must end at ITS clock
		if matched, _ := filepath.Glob(filepath.Join(wtBase, itemPat)); len(matched) >= 2 {
			if files, _ := filepath.Glob(filepath.Join(matched[0], "*.wsp")); len(files) > 0 {
				hold, err := wt.Open(files[0])
				if err == nil {
					go func() {
						time.Sleep(time.Duration(1100+r.Intn(900)) * time.Millisecond)
						hold.Close()
					}()
					c.Count("slow_first_item_runs", 1)
				}
			}
		}
	}
	res := runCLI(c, args...)
	det := fw.J{"run": res.brief(), "layout": l, "tree": wtree.Items}
	if cliPanicked(res) {
		c.Violationf("panic", det, "sum panicked")
		return
	}
	matched, _ := filepath.Glob(filepath.Join(wtBase, itemPat))
	var wantItems []string
	for _, m := range matched {
		rel, _ := filepath.Rel(wtBase, m)
		wantItems = append(wantItems, rel)
	}
	sort.Strings(wantItems)
	// "*" also matches "nest" which holds no files => the command fails for that item; skip judging that pattern's tail
	out := parseOutput(res.Stdout)
	expectFail := false
	for _, it := range wantItems {
		if _, ok := wtree.Items[it]; !ok {
			expectFail = true
		}
	}
	if expectFail {
		if res.Exit == 0 {
			c.Violationf("sum-empty-item-succeeded", det, "sum exited 0 although item directory without matching files was selected")
		} else {
			c.Count("no_match_file", 1)
		}
		return
	}
	if res.Exit != 0 {
		c.Violationf("sum-cli-failed", det, "sum exited %d: %s", res.Exit, truncStr(res.Stderr, 300))
		return
	}
	if len(out.Nows) != len(wantItems) {
		c.Violationf("sum-cli-items", det, "sum printed %d items, the pattern matches %d (%v)", len(out.Nows), len(wantItems), wantItems)
		return
	}
	for _, it := range wantItems {
		// items are matched by name (their order in the output is not part of the property)
		ii := -1
		for k := range out.Nows {
			if out.Nows[k].Name == dotted(it) {
				ii = k
			}
		}
		if ii < 0 {
			c.Violationf("sum-cli-items", det, "item %q does not appear in the output", dotted(it))
			return
		}
		nl := out.Nows[ii]
		u := until
		if u == 0 {
			u = nl.Now
		}
		want, nt := expectedSum(wtree, it, sel, from, u, nl.Now, c)
		nontrivial = nontrivial || nt
		end := len(out.Points)
		if ii+1 < len(out.Nows) {
			end = out.Nows[ii+1].PointsFrom
		}
		got := append([]pointLine(nil), out.Points[nl.PointsFrom:end]...)
		sort.SliceStable(got, func(i, j int) bool {
			if got[i].Arch != got[j].Arch {
				return got[i].Arch < got[j].Arch
			}
			return got[i].T < got[j].T
		})
		var wantPts []pointLine
		for ai := range want {
			if want[ai] == nil {
				continue
			}
			for j, v := range want[ai].Values() {
				wantPts = append(wantPts, pointLine{Arch: ai, T: int64(want[ai].FromTime()) + int64(j)*int64(want[ai].Step()), V: float64(v)})
			}
		}
		c.Count("cli_sums", 1)
		if len(got) != len(wantPts) {
			c.Violationf("sum-cli-point-count", det, "item %s: sum printed %d points, expected %d", it, len(got), len(wantPts))
			return
		}
		for k := range got {
			if got[k].Arch != wantPts[k].Arch || got[k].T != wantPts[k].T || !sameFloat(got[k].V, wantPts[k].V) {
				det["line"] = got[k].Raw
				c.Violationf("sum-cli-differs", det, "item %s: line %q, expected archive %d t %d val %v", it, got[k].Raw, wantPts[k].Arch, wantPts[k].T, wantPts[k].V)
				return
			}
		}
	}
	// patterns matching nothing (or nothing that is an item directory) through the CLI
	for _, a := range [][]string{
		{"sum", "-src-base", wtBase, "-item", "zz*", "-src", "*.wsp"},
		{"sum", "-src-base", wtBase, "-item", "grpA", "-src", "zz*.wsp"},
		{"sum", "-src-base", wtBase, "-item", "grpA/*", "-src", "*.wsp"}, // one level too deep: matches the files themselves
	} {
		rr := runCLI(c, a...)
		if rr.Exit == 0 || cliPanicked(rr) {
			c.Violationf("no-match-cli", rr.brief(), "sum with a pattern matching nothing exited %d", rr.Exit)
		} else if a[4] == "zz*" {
			c.Count("no_match_item", 1)
		} else {
			c.Count("no_match_file", 1)
		}
	}
	if nontrivial {
		c.Nontrivial(l.String(), vnow, fw.JSON(vt.Items), fw.JSON(wtree.Items))
	}
	if c.Index < 64 {
		c.Sample(fw.J{"layout": l.String(), "virtual_clock": vnow, "items": vt.Items, "cli_args": args})
	}
}
