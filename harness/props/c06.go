package props

import (
	"bytes"
	"fmt"
	"io/ioutil"
	"math"
	"os"
	"path/filepath"
	"strconv"
	"time"

	whisper "github.com/go-graphite/go-whisper"
	wt "github.com/hnakamur/whispertool"

	"verifharness/fw"
	"verifharness/model"
)

// C06 On-disk format is classic Whisper and interoperates with the reference reader.

type c06 struct{}

func init() { fw.Register(c06{}) }

func (c06) Meta() fw.Meta {
	return fw.Meta{
		ID: "C06",
		Rule: "case = (layout accepted by both validators, method, xff, clock, 3-6 write sessions). Session writers alternate or are fixed: whispertool only / go-whisper only / alternating (whispertool: write, Sync, Close; go-whisper: Update/UpdateMany, Close). " +
			"Monitor A after every session: the harness' independent byte parser checks big-endian header fields == requested, offsets contiguous from 16+12k in declaration order, length == 16+12k+12*sum(N), every non-empty slot j holds a step-aligned interval I with floor_mod((I-base)/S,N)==j. " +
			"Monitor B after every session: go-whisper and whispertool open the same bytes on one shared virtual clock; metadata (method, xff, max retention, retentions) and Fetch(from,until) over ~25 non-degenerate windows must agree (bounds, step, values bitwise, NaN==NaN), also when both readers' clock is behind the writer's (slots then hold intervals newer than requested). Some files are created by whispertool over an existing longer zero-filled file (WithOpenFileFlag without O_EXCL). " +
			"Every 8th case instead runs the real generate / copy / sum-copy binaries (incl. destinations created with nothing to copy) and applies Monitor A and the reference's Open to the files they wrote. non-trivial = file written by both libraries with at least one stale-lap or wrapped window compared; distinct by (layout, clock, ops)." +
			" Every 8th case adds a file written by a creating session and a session whose Open queued behind it." +
			" Every 2nd case lets batches carry points ahead of the clock and runs longer than the ring.",
		Assumptions: []string{
			"degenerate windows (aligned from == aligned until after clamping) are excluded as the property's quantifier does",
			"both libraries run on the same virtual clock (whispertool.Now / explicit now, whisper.Now); clock domain as C01 but below 2^31 + 2^30 so that go-whisper's int arithmetic and the 32-bit file fields agree",
			"go-whisper at the version pinned by the repository's go.mod is the reference",
		},
		Obligations: []string{"queued_writer_sessions", "format_checks", "nonempty_slots_checked", "metadata_compared", "windows_compared", "whispertool_written_sessions", "gowhisper_written_sessions", "alternating_files", "values_compared_non_nan", "stale_or_empty_compared", "far_jumps", "windows_from_epoch_or_2_31_back", "reader_clock_behind_windows", "created_over_existing_longer_file", "cli_written_files_checked", "cli_created_with_nothing_to_copy"},
	}
}

func (c06) Cases(tier string) int {
	if tier == "thorough" {
		return 200000
	}
	return 600
}

func c06FormatCheck(c *fw.Ctx, path string, l model.Layout, ctxInfo fw.J) bool {
	img, err := ioutil.ReadFile(path)
	if err != nil {
		panic(err)
	}
	fail := func(key, format string, args ...interface{}) bool {
		d := fw.J{"layout": l, "file_len": len(img), "header_hex": fmt.Sprintf("%x", img[:minI(len(img), int(l.HeaderSize()))])}
		for k, v := range ctxInfo {
			d[k] = v
		}
		c.Violationf("format:"+key, d, format, args...)
		return false
	}
	c.Count("format_checks", 1)
	if int64(len(img)) != l.FileSize() {
		return fail("length", "file length %d, format demands %d", len(img), l.FileSize())
	}
	want := model.EncodeHeader(l)
	if !bytes.Equal(img[:len(want)], want) {
		h, _ := model.ParseHeader(img)
		return fail("header", "header bytes differ from the big-endian encoding of the requested layout (parsed: %+v)", h)
	}
	h, raw, err := model.ParseFile(img)
	if err != nil {
		return fail("parse", "file does not parse: %v", err)
	}
	off := uint32(16 + 12*len(l.Archs))
	for i := range l.Archs {
		if h.Offsets[i] != off {
			return fail("offsets", "archive %d offset %d, contiguous layout demands %d", i, h.Offsets[i], off)
		}
		off += 12 * l.Archs[i].Points
	}
	for i, a := range l.Archs {
		base := raw[i][0].T
		for j, s := range raw[i] {
			if s.T == 0 {
				continue
			}
			c.Count("nonempty_slots_checked", 1)
			if s.T%a.Step != 0 {
				return fail("unaligned-interval", "archive %d slot %d holds interval %d, not a multiple of step %d", i, j, s.T, a.Step)
			}
			if base == 0 {
				return fail("nonempty-without-base", "archive %d slot %d is non-empty but the first slot is empty", i, j)
			}
			if model.SlotIndex(base, int64(s.T), a) != j {
				return fail("slot-position", "archive %d slot %d holds interval %d which belongs to slot %d relative to the first slot's interval %d", i, j, s.T, model.SlotIndex(base, int64(s.T), a), base)
			}
		}
	}
	return true
}

// c06CLI: files written by the commands (generate, copy, sum-copy), in particular destinations that are
// created although there is nothing to copy, must be classic Whisper files too.
func c06CLI(c *fw.Ctx) {
	r := c.Rng
	dir := c.TmpDir()
	l := cliLayout(r)
	now := time.Now().Unix()
	srcBase := filepath.Join(dir, "src")
	empty := r.Intn(2) == 0
	density := 0.6
	if empty {
		density = 0
	}
	for _, n := range []string{"a.wsp", "b.wsp"} {
		if empty {
			// really never-written sources
			mustMkdir(filepath.Join(srcBase, "it"))
			db, err := createFile(filepath.Join(srcBase, "it", n), l)
			if err != nil {
				panic(err)
			}
			db.Sync()
			db.Close()
		} else {
			writeFixture(filepath.Join(srcBase, "it", n), l, genContent(r, l, now, density), now)
		}
	}
	ret := []string{"-agg-method", model.MethodNames[l.Method], "-x-files-factor", strconv.FormatFloat(float64(l.Xff), 'g', -1, 32), "-retentions", l.RetentionString()}
	type prod struct {
		name string
		args []string
		out  string
	}
	prods := []prod{
		{"generate-fill", append([]string{"generate", "-dest", filepath.Join(dir, "g1.wsp")}, ret...), filepath.Join(dir, "g1.wsp")},
		{"generate-nofill", append([]string{"generate", "-dest", filepath.Join(dir, "g2.wsp"), "-fill=false"}, ret...), filepath.Join(dir, "g2.wsp")},
		{"copy-to-absent", append([]string{"copy", "-src-base", filepath.Join(srcBase, "it"), "-src", "a.wsp", "-dest-base", filepath.Join(dir, "d1"), "-text-out", ""}, ret...), filepath.Join(dir, "d1", "a.wsp")},
		{"copy-glob-to-absent", append([]string{"copy", "-src-base", filepath.Join(srcBase, "it"), "-src", "*.wsp", "-dest-base", filepath.Join(dir, "d2", "deep"), "-text-out", ""}, ret...), filepath.Join(dir, "d2", "deep", "b.wsp")},
		{"sum-copy-to-absent", append([]string{"sum-copy", "-src-base", srcBase, "-item", "it", "-src", "*.wsp", "-dest-base", filepath.Join(dir, "d3"), "-dest", "sum.wsp", "-text-out", ""}, ret...), filepath.Join(dir, "d3", "it", "sum.wsp")},
	}
	for _, p := range prods {
		res := runCLI(c, p.args...)
		info := fw.J{"producer": p.name, "empty_sources": empty, "run": res.brief()}
		if res.Exit != 0 || cliPanicked(res) {
			c.Violationf("cli-producer-failed:"+p.name, info, "%s exited %d", p.name, res.Exit)
			return
		}
		if !c06FormatCheck(c, p.out, l, info) {
			return
		}
		gw, err := whisper.Open(p.out)
		if err != nil {
			c.Violationf("reference-cannot-open", info, "go-whisper cannot open the file written by %s: %v", p.name, err)
			return
		}
		if int(gw.AggregationMethod()) != l.Method || math.Float32bits(gw.XFilesFactor()) != math.Float32bits(l.Xff) || gw.MaxRetention() != int(l.MaxRet()) || len(gw.Retentions()) != len(l.Archs) {
			c.Violationf("metadata-differs", info, "go-whisper reads other metadata from the file written by %s", p.name)
		}
		gw.Close()
		c.Count("cli_written_files_checked", 1)
		if empty && p.name != "generate-fill" {
			c.Count("cli_created_with_nothing_to_copy", 1)
		}
	}
	c.Nontrivial("cli", l.String(), empty)
	c.Sample(fw.J{"kind": "cli-written files", "layout": l.String(), "empty_sources": empty})
}

func (c06) Run(c *fw.Ctx) {
	r := c.Rng
	if c.Index%8 == 6 {
		c06CLI(c)
		return
	}
	if c.Index%8 == 1 {
		if !c06Queued(c) {
			return
		}
	}
	l := genLayout(r, layoutOpts{maxPoints0: 500})
	now := genClock(r, l)
	if now > 1<<31+1<<30 {
		if alt := 1500000000 + int64(r.Intn(500000000)); alt >= l.MaxRet()+2*l.MaxStep() {
			now = alt // (only if the earlier clock is still inside the clock domain of this layout)
		}
	}
	farJump := c.Index%5 == 3
	if farJump {
		// directed: a file first written at an early clock and written again years later, so that the
		// distance between the first slot's interval and the addressed interval is huge
		now = l.MaxRet() + 2*l.MaxStep() + int64(r.Intn(100000))
	}
	path := filepath.Join(c.TmpDir(), "c06.wsp")
	mode := c.Index % 3 // 0 whispertool only, 1 go-whisper only, 2 alternating
	setClock := func() {
		n := now
		whisper.Now = func() time.Time { return time.Unix(n, 0) }
		wt.Now = func() time.Time { return time.Unix(n, 0) }
	}
	setClock()
	defer func() { whisper.Now = time.Now; wt.Now = time.Now }()

	var rets whisper.Retentions
	for _, a := range l.Archs {
		rt := whisper.NewRetention(int(a.Step), int(a.Points))
		rets = append(rets, &rt)
	}
	// creation
	creator := "whispertool"
	if mode == 1 || (mode == 2 && r.Intn(2) == 0) {
		creator = "go-whisper"
	}
	if creator == "whispertool" {
		var copts []wt.Option
		if c.Index%10 == 4 {
			// Create over an existing, longer file (documented option WithOpenFileFlag without O_EXCL):
			// the result must still have exactly the format's length
			// (a zero-filled placeholder: with this flag Create keeps whatever bytes the caller left in place,
			// so non-zero junk would be the caller's content, not something whispertool wrote)
			junk := make([]byte, l.FileSize()+int64(1+r.Intn(50000)))
			if err := ioutil.WriteFile(path, junk, 0644); err != nil {
				panic(err)
			}
			copts = append(copts, wt.WithOpenFileFlag(os.O_RDWR|os.O_CREATE))
			c.Count("created_over_existing_longer_file", 1)
		}
		db, err := createFile(path, l, copts...)
		if err != nil {
			c.Violationf("create-failed", fw.J{"layout": l, "err": err.Error()}, "whispertool Create failed: %v", err)
			return
		}
		if err := db.Sync(); err != nil {
			panic(err)
		}
		db.Close()
	} else {
		gw, err := whisper.CreateWithOptions(path, rets, whisper.AggregationMethod(l.Method), l.Xff, &whisper.Options{})
		if err != nil {
			c.Inconclusive("go-whisper rejects layout " + l.String() + ": " + err.Error())
			return
		}
		gw.Close()
	}
	var ops []string
	sessions := 3 + r.Intn(4)
	wroteWT, wroteGW := false, false
	interesting := false
	for s := 0; s < sessions && !c.Violated(); s++ {
		writer := "whispertool"
		if mode == 1 || (mode == 2 && (s%2 == 1)) {
			writer = "go-whisper"
		}
		// clock moves between sessions
		if s > 0 {
			op := genOp(r, l, now, histOpts{futureBatch: c.Index%2 == 1})
			for op.Kind != "advance" {
				op = genOp(r, l, now, histOpts{futureBatch: c.Index%2 == 1})
			}
			if farJump && s <= 2 && r.Intn(2) == 0 {
				op.Delta = 200000000 + r.Int63n(2300000000)
				c.Count("far_jumps", 1)
			}
			if now+op.Delta < 1<<31+1<<30 {
				now += op.Delta
				setClock()
				ops = append(ops, fmt.Sprintf("advance %d", op.Delta))
			}
		}
		nw := 1 + r.Intn(6)
		if writer == "whispertool" {
			db, err := wt.Open(path)
			if err != nil {
				c.Violationf("whispertool-cannot-open", fw.J{"layout": l, "ops": ops, "creator": creator, "err": err.Error()}, "whispertool cannot open the file (creator %s): %v", creator, err)
				return
			}
			for i := 0; i < nw; i++ {
				op := genOp(r, l, now, histOpts{noReopen: true})
				switch op.Kind {
				case "single":
					if err := db.UpdatePointForArchive(op.Arch, wt.Timestamp(op.Pt.T), wt.Value(math.Float64frombits(op.Pt.Bits)), u32(now)); err != nil {
						c.Violationf("write-error", fw.J{"err": err.Error()}, "whispertool write failed: %v", err)
					}
					ops = append(ops, fmt.Sprintf("wt single arch=%d t=%d", op.Arch, op.Pt.T))
				case "batch":
					if err := db.UpdatePointsForArchive(toPoints(op.Pts), op.Arch, u32(now)); err != nil {
						c.Violationf("write-error", fw.J{"err": err.Error()}, "whispertool write failed: %v", err)
					}
					ops = append(ops, fmt.Sprintf("wt batch arch=%d n=%d", op.Arch, len(op.Pts)))
				}
			}
			if err := db.Sync(); err != nil {
				panic(err)
			}
			db.Close()
			wroteWT = true
			c.Count("whispertool_written_sessions", 1)
		} else {
			gw, err := whisper.Open(path)
			if err != nil {
				c.Violationf("reference-cannot-open", fw.J{"layout": l, "ops": ops, "creator": creator, "err": err.Error()}, "go-whisper cannot open the file (creator %s, whispertool wrote: %v): %v", creator, wroteWT, err)
				return
			}
			for i := 0; i < nw; i++ {
				if r.Intn(2) == 0 {
					t := inRangeTime(r, now, l.MaxRet())
					v := (r.Float64()*2 - 1) * 1000
					if err := gw.Update(v, int(t)); err != nil {
						c.Inconclusive("go-whisper Update failed: " + err.Error())
					}
					ops = append(ops, fmt.Sprintf("gw update t=%d", t))
				} else {
					var pts []*whisper.TimeSeriesPoint
					n := 1 + r.Intn(20)
					for j := 0; j < n; j++ {
						pts = append(pts, &whisper.TimeSeriesPoint{Time: int(inRangeTime(r, now, l.MaxRet())), Value: (r.Float64()*2 - 1) * 1000})
					}
					if err := gw.UpdateMany(pts); err != nil {
						c.Inconclusive("go-whisper UpdateMany failed: " + err.Error())
					}
					ops = append(ops, fmt.Sprintf("gw updatemany n=%d", n))
				}
			}
			gw.Close()
			wroteGW = true
			c.Count("gowhisper_written_sessions", 1)
		}
		info := fw.J{"creator": creator, "ops": ops, "now": now, "last_writer": writer}
		// ---- Monitor A
		if !c06FormatCheck(c, path, l, info) {
			return
		}
		// ---- Monitor B
		gw, err := whisper.Open(path)
		if err != nil {
			c.Violationf("reference-cannot-open", fw.J{"layout": l, "ops": ops, "creator": creator, "err": err.Error()}, "go-whisper cannot open the file after a %s session: %v", writer, err)
			return
		}
		db, err := wt.Open(path)
		if err != nil {
			gw.Close()
			c.Violationf("whispertool-cannot-open", fw.J{"layout": l, "ops": ops, "creator": creator, "err": err.Error()}, "whispertool cannot open the file after a %s session: %v", writer, err)
			return
		}
		c.Count("metadata_compared", 1)
		metaOK := int(gw.AggregationMethod()) == int(db.AggregationMethod()) && int(db.AggregationMethod()) == l.Method &&
			math.Float32bits(gw.XFilesFactor()) == math.Float32bits(db.XFilesFactor()) && math.Float32bits(db.XFilesFactor()) == math.Float32bits(l.Xff) &&
			gw.MaxRetention() == int(db.MaxRetention()) && int64(db.MaxRetention()) == l.MaxRet() && len(gw.Retentions()) == len(db.ArchiveInfoList()) && len(gw.Retentions()) == len(l.Archs)
		if metaOK {
			for i, rt := range gw.Retentions() {
				a := db.ArchiveInfoList()[i]
				if rt.SecondsPerPoint() != int(a.SecondsPerPoint()) || rt.NumberOfPoints() != int(a.NumberOfPoints()) || uint32(rt.SecondsPerPoint()) != l.Archs[i].Step || uint32(rt.NumberOfPoints()) != l.Archs[i].Points {
					metaOK = false
				}
			}
		}
		if !metaOK {
			c.Violationf("metadata-differs", fw.J{"layout": l, "info": info, "gw": fmt.Sprintf("%v %v %v %v", gw.AggregationMethod(), gw.XFilesFactor(), gw.MaxRetention(), gw.Retentions()), "wt": db.Header().String()},
				"the two readers disagree on the metadata of the same bytes (or with the requested layout)")
		}
		raw, _ := rawOf(db)
		for wi := 0; wi < 25 && !c.Violated(); wi++ {
			var from, until int64
			switch r.Intn(6) {
			case 0:
				from, until = now-l.MaxRet(), now
			case 1:
				a := l.Archs[r.Intn(len(l.Archs))]
				from, until = now-a.Ret(), now
			case 2:
				a := l.Archs[r.Intn(len(l.Archs))]
				from = now - r.Int63n(a.Ret()+1)
				until = from + r.Int63n(now-from+1)
			case 3:
				from = now - l.MaxRet() - r.Int63n(int64(l.MaxStep())*3+1)
				until = now + r.Int63n(100)
				if r.Intn(2) == 0 {
					// reaching back to the epoch / around 2^31 seconds before the clock
					from = []int64{0, 1, now - 1<<31 - 1, now - 1<<31, now - 1<<31 + 1}[r.Intn(5)]
					c.Count("windows_from_epoch_or_2_31_back", 1)
				}
			default:
				from = now - r.Int63n(l.MaxRet()+1)
				until = from + r.Int63n(now-from+1)
			}
			if from < 0 {
				from = 0
			}
			sh := model.FetchShape(l, -1, from, until, now)
			if sh.Err {
				continue
			}
			if !sh.Absent {
				a := l.Archs[sh.Arch]
				cf, cu := maxI64(from, now-a.Ret()), minI64(until, now)
				if model.AlignNext(cf, a.Step) == model.AlignNext(cu, a.Step) {
					continue // degenerate: outside the quantifier
				}
			}
			g, gerr := gw.Fetch(int(from), int(until))
			w, werr := db.FetchFromArchive(wt.ArchiveIDBest, u32(from), u32(until), u32(now))
			c.Count("windows_compared", 1)
			det := fw.J{"layout": l, "info": info, "from": from, "until": until, "now": now}
			if (gerr != nil) != (werr != nil) || (g == nil) != (w == nil) {
				c.Violationf("readers-disagree-absent", det, "window [%d,%d]: go-whisper (nil=%v err=%v) vs whispertool (nil=%v err=%v)", from, until, g == nil, gerr, w == nil, werr)
				continue
			}
			if g == nil || gerr != nil {
				continue
			}
			if g.FromTime() != int(w.FromTime()) || g.UntilTime() != int(w.UntilTime()) || g.Step() != int(w.Step()) || len(g.Values()) != len(w.Values()) {
				c.Violationf("readers-disagree-shape", det, "window [%d,%d]: go-whisper (%d,%d,%d,n=%d) vs whispertool (%d,%d,%d,n=%d)", from, until, g.FromTime(), g.UntilTime(), g.Step(), len(g.Values()), w.FromTime(), w.UntilTime(), w.Step(), len(w.Values()))
				continue
			}
			ring := raw[sh.Arch]
			prev := -1
			for i, gv := range g.Values() {
				wv := float64(w.Values()[i])
				if math.IsNaN(gv) && math.IsNaN(wv) {
					c.Count("stale_or_empty_compared", 1)
				} else if math.Float64bits(gv) == math.Float64bits(wv) {
					c.Count("values_compared_non_nan", 1)
				} else {
					det["index"] = i
					det["interval"] = g.FromTime() + i*g.Step()
					c.Violationf("readers-disagree-value", det, "window [%d,%d] interval %d: go-whisper reads %v, whispertool reads %v", from, until, g.FromTime()+i*g.Step(), gv, wv)
					break
				}
				if ring[0].T != 0 {
					idx := model.SlotIndex(ring[0].T, int64(g.FromTime()+i*g.Step()), l.Archs[sh.Arch])
					if idx < prev || (math.IsNaN(gv) && ring[idx].T != 0) {
						interesting = true
					}
					prev = idx
				}
			}
		}
		// the same bytes read by both readers whose clock is BEHIND the writer's (another host, a stepped clock):
		// slots may then hold intervals newer than the ones asked for
		for wi := 0; wi < 6 && !c.Violated(); wi++ {
			a := l.Archs[r.Intn(len(l.Archs))]
			back := []int64{int64(a.Step), a.Ret() / 2, a.Ret(), a.Ret() + int64(a.Step)*int64(1+r.Intn(3))}[r.Intn(4)]
			rnow := now - back
			if rnow < l.MaxRet()+2*l.MaxStep() {
				continue
			}
			whisper.Now = func() time.Time { return time.Unix(rnow, 0) }
			from := rnow - r.Int63n(a.Ret()+1)
			until := from + r.Int63n(rnow-from+1)
			sh := model.FetchShape(l, -1, from, until, rnow)
			if sh.Err || sh.Absent {
				continue
			}
			aa := l.Archs[sh.Arch]
			if model.AlignNext(maxI64(from, rnow-aa.Ret()), aa.Step) == model.AlignNext(minI64(until, rnow), aa.Step) {
				continue
			}
			g, gerr := gw.Fetch(int(from), int(until))
			w, werr := db.FetchFromArchive(wt.ArchiveIDBest, u32(from), u32(until), u32(rnow))
			c.Count("reader_clock_behind_windows", 1)
			det := fw.J{"layout": l, "info": info, "from": from, "until": until, "reader_now": rnow, "writer_now": now}
			if gerr != nil || werr != nil || g == nil || w == nil || len(g.Values()) != len(w.Values()) || g.FromTime() != int(w.FromTime()) {
				c.Violationf("readers-disagree-shape", det, "reader clock %d behind the writer's %d, window [%d,%d]: the two readers disagree on the series shape", rnow, now, from, until)
				continue
			}
			for i, gv := range g.Values() {
				wv := float64(w.Values()[i])
				if !(math.IsNaN(gv) && math.IsNaN(wv)) && math.Float64bits(gv) != math.Float64bits(wv) {
					det["interval"] = g.FromTime() + i*g.Step()
					c.Violationf("readers-disagree-value", det, "reader clock %d behind the writer's %d, interval %d: go-whisper reads %v, whispertool reads %v", rnow, now, g.FromTime()+i*g.Step(), gv, wv)
					break
				}
			}
		}
		setClock()
		db.Close()
		gw.Close()
	}
	if mode == 2 && wroteWT && wroteGW {
		c.Count("alternating_files", 1)
		if interesting {
			c.Nontrivial(l.String(), now, fmt.Sprint(ops))
		}
	} else if interesting {
		c.Nontrivial(l.String(), now, fmt.Sprint(ops))
	}
	if c.Index < 64 {
		c.Sample(fw.J{"layout": l.String(), "clock": now, "mode": []string{"whispertool-only", "go-whisper-only", "alternating"}[mode], "creator": creator, "ops": ops[:minI(len(ops), 8)]})
	}
}

// c06Queued: a file written by two sessions of which the second started (Open) while the creating one was still
// at work and had to queue behind it. The file both leave behind must be a classic Whisper file that go-whisper
// reads like whispertool does.
func c06Queued(c *fw.Ctx) bool {
	r := c.Rng
	l := genLayout(r, layoutOpts{minArch: 1, maxArch: 3, maxPoints0: 3000, multiPage: true, smallRatios: true})
	now := genClock(r, l)
	if now > 1<<31 {
		if alt := 1500000000 + int64(r.Intn(500000000)); alt >= l.MaxRet()+2*l.MaxStep() {
			now = alt
		}
	}
	path := filepath.Join(c.TmpDir(), "c06-queued.wsp")
	a, err := createFile(path, l)
	if err != nil {
		c.Violationf("create-failed", fw.J{"layout": l, "err": err.Error()}, "Create failed: %v", err)
		return false
	}
	var b *wt.Whisper
	var berr error
	done := make(chan struct{})
	go func() { b, berr = wt.Open(path); close(done) }()
	time.Sleep(25 * time.Millisecond)
	// the creator writes its first point (the base) and points all over the ring, then syncs and leaves
	a0 := l.Archs[0]
	for j := 0; j < 30; j++ {
		t := inRangeTime(r, now, a0.Ret())
		if j == 0 {
			t = now - a0.Ret()/2
		}
		if err := a.UpdatePointForArchive(0, u32(t), wt.Value(float64(j)+0.5), u32(now)); err != nil {
			c.Violationf("write-error", fw.J{"layout": l, "err": err.Error()}, "write failed: %v", err)
			a.Close()
			return false
		}
	}
	serr := a.Sync()
	a.Close()
	select {
	case <-done:
	case <-time.After(60 * time.Second):
		c.Violationf("queued-open-hangs", fw.J{"layout": l}, "an Open that queued behind the creating handle did not return within 60 s after that handle was closed")
		return false
	}
	if serr != nil || berr != nil {
		c.Violationf("queued-session-error", fw.J{"layout": l, "sync_err": fmt.Sprint(serr), "open_err": fmt.Sprint(berr)}, "creator Sync: %v, queued Open: %v", serr, berr)
		return false
	}
	// the second session writes its own points (one of them the newest) and syncs
	for j := 0; j < 5; j++ {
		t := inRangeTime(r, now, a0.Ret())
		if j == 0 {
			t = now
		}
		if err := b.UpdatePointForArchive(0, u32(t), wt.Value(float64(100+j)), u32(now)); err != nil {
			c.Violationf("write-error", fw.J{"layout": l, "err": err.Error()}, "write failed: %v", err)
			b.Close()
			return false
		}
	}
	serr = b.Sync()
	b.Close()
	if serr != nil {
		c.Violationf("queued-session-error", fw.J{"layout": l, "sync_err": fmt.Sprint(serr)}, "second session Sync: %v", serr)
		return false
	}
	c.Count("queued_writer_sessions", 1)
	return c06FormatCheck(c, path, l, fw.J{"scenario": "creator session + a session that queued behind it", "clock": now})
}
