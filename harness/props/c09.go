package props

import (
	"fmt"
	"math"
	"os"
	"path/filepath"
	"sort"
	"strconv"
	"strings"
	"time"

	"verifharness/fw"
	"verifharness/model"
)

// C09 diff reports exactly the slots that differ.

type c09 struct{}

func init() { fw.Register(c09{}) }

func (c09) Meta() fw.Meta {
	return fw.Meta{
		ID: "C09",
		Rule: "case = one scenario through the real binary: pairs of files {identical bytes, same content written separately, k slots perturbed (other value / value->NaN / NaN->value / one ulp apart / +0 vs -0 / NaN payloads / +-Inf), unrelated, one side never written}, equal or different layouts, either side missing, glob trees with 0/1/all files differing (a symlinked source file, non-canonical base spellings), listing to stdout or to a -text-out file, -archive all or one id, windows {default, narrow, past, degenerate, beyond finest retention}. " +
			"oracle (library fetches at the clock printed in the now: line): expected set = slots of the selected archives in the window whose values are not (both NaN or numerically equal); exit 1 <=> set non-empty or a side missing (with an err: line, never exit 2); printed records == the set (compared after ordering both by archive and time) with both values parsed back bit-exactly and destMinusSrc == dest-src (NaN if either missing); " +
			"self-diff and diff of byte-identical files exit 0; diff(a,b) and diff(b,a) run in the same second give the same verdict and mirrored records; different layouts => exit 2; glob: verdict 1 <=> any file differs and every matched file has its now: line. " +
			"non-trivial = scenario whose expected set is non-empty AND a proper subset of the compared slots; distinct by scenario parameters." +
			" Every 6th single-file case has BOTH sides on one server (single scheduler thread, socket writes delayed by 20 ms via strace), with long archives (150-250k points) every 24th case and six other clients reading the same files meanwhile." +
			" Even single-file cases use a file name containing +, & and =; glob cases end with a run holding both an unequal-layout pair and a differing pair (exit 2 demanded)." +
			" Every glob case is also run against a destination base that does not exist (exit 1, one err: line per file).",
		Assumptions: []string{
			"the oracle uses the clock the command printed; the symmetry relation is only judged when both runs printed the same clock",
			"a glob pattern that matches nothing on the source side is not a 'missing file' and is not judged here (C16 covers it)",
		},
		Obligations: []string{"diff_runs", "clean_verdicts", "diff_verdicts", "records_checked", "self_diff", "identical_files", "ulp_apart", "signed_zero_equal", "nan_vs_nan_equal", "nan_vs_value", "missing_src", "missing_dest", "layout_mismatch_error", "symmetry_checked", "glob_one_differs", "glob_none_differs", "single_archive_selection", "remote_side_runs", "text_out_file_runs", "never_written_side", "symlinked_source_in_glob", "unclean_base_spelling", "remote_glob_runs", "both_sides_remote_runs", "both_sides_remote_long_archives", "runs_with_concurrent_clients", "concurrent_noise_requests_served", "server_socket_writes_delayed", "file_names_needing_query_escaping", "glob_with_mismatch_and_difference", "glob_against_a_nonexistent_destination_base"},
		Workers:     12,
	}
}

func (c09) Cases(tier string) int {
	if tier == "thorough" {
		return 80000
	}
	return 400
}

type diffScenario struct {
	L       string
	Kind    string
	Window  string
	From    int64
	Until   int64
	Archive int
	Glob    bool
	Files   []string
}

type expDiff struct {
	Arch      int
	T         int64
	Src, Dest float64
}

// expectedDiffs computes the difference set of two files at the command's clock.
func expectedDiffs(srcPath, destPath string, sel int, from, until, now int64) ([]expDiff, int64, error) {
	s, _, err := fetchArchives(srcPath, sel, from, until, now)
	if err != nil {
		return nil, 0, err
	}
	d, _, err := fetchArchives(destPath, sel, from, until, now)
	if err != nil {
		return nil, 0, err
	}
	var out []expDiff
	var compared int64
	for ai := range s {
		if s[ai] == nil || d[ai] == nil {
			continue
		}
		if len(s[ai].Values()) != len(d[ai].Values()) || s[ai].FromTime() != d[ai].FromTime() {
			return nil, 0, fmt.Errorf("archive %d: the library returns different series shapes for the two files over the same window (%d values from %d vs %d values from %d)",
				ai, len(s[ai].Values()), s[ai].FromTime(), len(d[ai].Values()), d[ai].FromTime())
		}
		for j, sv := range s[ai].Values() {
			compared++
			dv := float64(d[ai].Values()[j])
			if !valEq(float64(sv), dv) {
				out = append(out, expDiff{ai, int64(s[ai].FromTime()) + int64(j)*int64(s[ai].Step()), float64(sv), dv})
			}
		}
	}
	return out, compared, nil
}

func sameFloat(a, b float64) bool {
	return math.Float64bits(a) == math.Float64bits(b) || (math.IsNaN(a) && math.IsNaN(b))
}

func checkDiffRecords(c *fw.Ctx, got []diffLine, want []expDiff, det fw.J) bool {
	if len(got) != len(want) {
		det["want_records"] = len(want)
		det["got_records"] = len(got)
		if len(want) > 0 {
			det["first_expected"] = fmt.Sprintf("%+v", want[0])
		}
		c.Violationf("diff-record-count", det, "diff listed %d differing slots, the files differ in %d slots of the window", len(got), len(want))
		return false
	}
	// the statement fixes WHICH slots are listed, not their order: both lists are ordered by (archive, time)
	got = append([]diffLine(nil), got...)
	want = append([]expDiff(nil), want...)
	sort.SliceStable(got, func(i, j int) bool {
		if got[i].Arch != got[j].Arch {
			return got[i].Arch < got[j].Arch
		}
		return got[i].T < got[j].T
	})
	sort.SliceStable(want, func(i, j int) bool {
		if want[i].Arch != want[j].Arch {
			return want[i].Arch < want[j].Arch
		}
		return want[i].T < want[j].T
	})
	for i := range got {
		g, w := got[i], want[i]
		c.Count("records_checked", 1)
		wantMinus := w.Dest - w.Src
		if math.IsNaN(w.Dest) || math.IsNaN(w.Src) {
			wantMinus = math.NaN()
		}
		if g.Arch != w.Arch || g.T != w.T || !sameFloat(g.Src, w.Src) || !sameFloat(g.Dest, w.Dest) || !sameFloat(g.DestMinus, wantMinus) {
			det["record_index"] = i
			det["got_line"] = g.Raw
			det["want"] = fmt.Sprintf("archive %d t %d src %v dest %v destMinusSrc %v", w.Arch, w.T, w.Src, w.Dest, wantMinus)
			c.Violationf("diff-record-wrong", det, "diff record %d is %q, expected archive %d t %d src %v dest %v", i, g.Raw, w.Arch, w.T, w.Src, w.Dest)
			return false
		}
	}
	return true
}

func (c09) Run(c *fw.Ctx) {
	r := c.Rng
	dir := c.TmpDir()
	aBase, bBase := filepath.Join(dir, "a"), filepath.Join(dir, "b")
	mustMkdir(aBase)
	mustMkdir(bBase)
	l := cliLayout(r)
	big := c.Index%24 == 5 // two long archives, both sides fetched concurrently from one single-threaded server
	if big {
		l = model.Layout{Archs: []model.Arch{{Step: 1, Points: uint32(150000 + r.Intn(100000))}, {Step: 60, Points: uint32(30000 + r.Intn(20000))}}, Method: 1 + r.Intn(6), Xff: 0.5}
	}
	now := time.Now().Unix()
	kinds := []string{"identical-bytes", "same-content", "perturbed", "special-values", "unrelated", "missing-src", "missing-dest", "layout-mismatch", "self", "perturbed", "fresh-vs-written"}
	sc := diffScenario{L: l.String(), Kind: kinds[c.Index%len(kinds)], Archive: -1}
	if big {
		sc.Kind = "perturbed"
	}
	sc.Glob = !big && c.Index%7 == 3 && sc.Kind != "missing-src" && sc.Kind != "layout-mismatch" && sc.Kind != "self"
	windows := []string{"default", "narrow", "past", "degenerate", "beyond-finest", "default", "default"}
	sc.Window = windows[(c.Index/len(kinds))%len(windows)]
	if r.Intn(3) == 0 {
		sc.Archive = r.Intn(len(l.Archs))
		c.Count("single_archive_selection", 1)
	}
	a0 := l.Archs[0]
	switch sc.Window {
	case "narrow":
		sc.From = now - r.Int63n(a0.Ret()/2+1) - 2
		sc.Until = sc.From + 1 + r.Int63n(3*int64(a0.Step)+1)
	case "past":
		sc.Until = now - a0.Ret()/3 - r.Int63n(a0.Ret()/3+1)
		sc.From = sc.Until - r.Int63n(l.MaxRet()/2+1) - 1
	case "degenerate":
		sc.From = now - r.Int63n(a0.Ret()) - 1
		sc.Until = sc.From
	case "beyond-finest":
		sc.Until = now - a0.Ret() - 2 - r.Int63n(int64(a0.Step)*3+1)
		sc.From = sc.Until - r.Int63n(l.MaxRet()/2+1) - 1
	}
	if sc.From < 1 && sc.Window != "default" {
		sc.From = 1
	}
	missingBase := false
	nfiles := 1
	differing := map[int]bool{0: true}
	if sc.Glob {
		nfiles = 3 + r.Intn(3)
		differing = map[int]bool{}
		switch r.Intn(3) {
		case 0: // none differs
		case 1:
			differing[r.Intn(nfiles)] = true
		default:
			for i := 0; i < nfiles; i++ {
				differing[i] = true
			}
		}
	}
	for i := 0; i < nfiles; i++ {
		rel := fmt.Sprintf("f%d.wsp", i)
		if sc.Glob && i == 2 {
			rel = "f 2 x.wsp" // a name containing whitespace
		}
		if !sc.Glob && c.Index%2 == 0 {
			rel = "f+0&x=y.wsp" // characters that mean something in a URL query (the remote side must get the very name)
			c.Count("file_names_needing_query_escaping", 1)
		}
		sc.Files = append(sc.Files, rel)
		cont := genContent(r, l, now, 0.3+0.6*r.Float64())
		ap, bp := filepath.Join(aBase, rel), filepath.Join(bBase, rel)
		if sc.Glob && i == 1 {
			real := filepath.Join(dir, "real", rel)
			writeFixture(real, l, cont, now)
			os.Remove(ap)
			if err := os.Symlink(real, ap); err != nil {
				panic(err)
			}
			c.Count("symlinked_source_in_glob", 1)
		} else {
			writeFixture(ap, l, cont, now)
		}
		kind := sc.Kind
		if sc.Glob && !differing[i] {
			kind = "same-content"
		}
		switch kind {
		case "identical-bytes", "self":
			os.WriteFile(bp, readFileOrNil(ap), 0644)
		case "same-content":
			writeFixture(bp, l, cont, now)
		case "perturbed":
			d := cloneContent(cont)
			all := []int{}
			for ai := range l.Archs {
				all = append(all, ai)
			}
			np := 1 + r.Intn(4)
			if big {
				np = 200
			}
			perturb(r, d, all, np)
			writeFixture(bp, l, d, now)
		case "special-values":
			sa, sb := cloneContent(cont), cloneContent(cont)
			for ai, a := range l.Archs {
				lo := model.AlignNext(now-a.Ret(), a.Step)
				var ts []int64
				for t := lo; t <= now; t += int64(a.Step) {
					ts = append(ts, t)
				}
				r.Shuffle(len(ts), func(i, j int) { ts[i], ts[j] = ts[j], ts[i] })
				set := func(k int, va, vb float64) {
					if k < len(ts) {
						sa[ai][ts[k]], sb[ai][ts[k]] = va, vb
					}
				}
				v := float64(r.Intn(1000)) + 0.1
				set(0, v, math.Nextafter(v, math.Inf(1)))
				set(1, 0, math.Copysign(0, -1))
				set(2, math.Float64frombits(0x7ff8000000000001), math.Float64frombits(0x7ff80000000000ff))
				set(3, math.NaN(), 5)
				set(4, math.Inf(1), math.Inf(1))
				set(5, math.Inf(1), math.Inf(-1))
				set(6, 1e300, 1e300)
				set(7, 123456789.12345679, 123456789.12345678)
			}
			writeFixture(ap, l, sa, now)
			writeFixture(bp, l, sb, now)
			c.Count("ulp_apart", 1)
			c.Count("signed_zero_equal", 1)
			c.Count("nan_vs_nan_equal", 1)
			c.Count("nan_vs_value", 1)
		case "unrelated":
			writeFixture(bp, l, genContent(r, l, now, 0.5), now)
		case "fresh-vs-written":
			// one side was never written at all (every archive empty)
			os.Remove(bp)
			db, err := createFile(bp, l)
			if err != nil {
				panic(err)
			}
			db.Sync()
			db.Close()
			c.Count("never_written_side", 1)
		case "missing-src":
			os.WriteFile(bp, readFileOrNil(ap), 0644)
			os.Remove(ap)
		case "missing-dest":
			if sc.Glob && c.Index%2 == 0 {
				// not only the files: the whole destination base directory does not exist
				missingBase = true
			}
		case "layout-mismatch":
			other := model.Layout{Archs: append([]model.Arch(nil), l.Archs...), Method: l.Method, Xff: l.Xff}
			other.Archs[len(other.Archs)-1].Points += 1 + uint32(r.Intn(4))
			writeFixture(bp, other, genContent(r, other, now, 0.5), now)
		}
	}
	if missingBase {
		os.RemoveAll(bBase)
		c.Count("glob_with_a_missing_destination_base", 1)
	}
	mkArgs := func(srcBase, destBase, pat string) []string {
		args := []string{"diff", "-src-base", srcBase, "-src", pat, "-dest-base", destBase, "-archive", strconv.Itoa(sc.Archive)}
		if sc.Until != 0 {
			args = append(args, "-from", tsArg(sc.From), "-until", tsArg(sc.Until))
		}
		return args
	}
	pat := sc.Files[0]
	if sc.Glob {
		pat = "f*.wsp"
	}
	destBase := bBase
	if sc.Kind == "self" {
		destBase = aBase
		c.Count("self_diff", 1)
	}
	// a third of the single-file scenarios address one side through a real server (the files are
	// the same ones; the oracle still reads them locally)
	srcBaseArg, destBaseArg := aBase, destBase
	if sc.Glob {
		switch c.Index % 4 {
		case 1:
			srcBaseArg = aBase + "/"
		case 2:
			srcBaseArg = aBase + "/."
		case 3:
			srcBaseArg = filepath.Dir(aBase) + "//" + filepath.Base(aBase)
		}
		if srcBaseArg != aBase {
			c.Count("unclean_base_spelling", 1)
		}
	}
	extra := []string(nil)
	patArg := pat
	noiseBase, noiseFiles := "", []string(nil)
	if sc.Glob && c.Index%3 == 1 {
		// glob mode with the source served by the real server: the destination tree mirrors the served path
		if u, served, ok := workerServer(c); ok {
			name := fmt.Sprintf("c09g-%d", c.Index)
			link := filepath.Join(served, name)
			os.Symlink(aBase, link)
			defer os.Remove(link)
			rdest := filepath.Join(dir, "rdest")
			mustMkdir(rdest)
			os.Symlink(destBase, filepath.Join(rdest, name))
			srcBaseArg, destBaseArg = u, rdest
			patArg = name + "/" + pat
			sc.Kind += "+remote-src-glob"
			c.Count("remote_side_runs", 1)
			c.Count("remote_glob_runs", 1)
		}
	}
	if big || (!sc.Glob && c.Index%6 == 2 && sc.Kind != "self" && sc.Kind != "missing-src" && sc.Kind != "missing-dest") {
		// both sides served by the same server: the command fetches them concurrently
		if u, served, ok := workerServer1P(c); ok {
			ls, ld := filepath.Join(served, fmt.Sprintf("c09s-%d", c.Index)), filepath.Join(served, fmt.Sprintf("c09d-%d", c.Index))
			os.Symlink(aBase, ls)
			os.Symlink(destBase, ld)
			defer os.Remove(ls)
			defer os.Remove(ld)
			srcBaseArg, destBaseArg = u, u
			patArg = filepath.Join(filepath.Base(ls), pat)
			extra = []string{"-dest", filepath.Join(filepath.Base(ld), pat)}
			sc.Kind += "+both-remote"
			if c.Index%4 == 2 || big {
				np := filepath.Join(aBase, "noise.wsp")
				writeFixture(np, l, genContent(r, l, now, 0.9), now)
				noiseBase = u
				noiseFiles = []string{filepath.Join(filepath.Base(ls), pat), filepath.Join(filepath.Base(ld), pat), filepath.Join(filepath.Base(ls), "noise.wsp")}
			}
			c.Count("remote_side_runs", 1)
			c.Count("both_sides_remote_runs", 1)
			if server1PDelayed(c) {
				c.Count("server_socket_writes_delayed", 1)
			}
			if big {
				c.Count("both_sides_remote_long_archives", 1)
			}
		}
	} else if !sc.Glob && c.Index%3 == 2 && sc.Kind != "self" {
		if u, served, ok := workerServer(c); ok {
			link := filepath.Join(served, fmt.Sprintf("c09-%d", c.Index))
			if r.Intn(2) == 0 {
				os.Symlink(aBase, link)
				srcBaseArg, patArg = u, filepath.Join(filepath.Base(link), pat)
				extra = []string{"-dest", pat}
				sc.Kind += "+remote-src"
			} else {
				os.Symlink(destBase, link)
				destBaseArg = u
				extra = []string{"-dest", filepath.Join(filepath.Base(link), pat)}
				sc.Kind += "+remote-dest"
			}
			defer os.Remove(link)
			c.Count("remote_side_runs", 1)
		}
	}
	toFile := ""
	if c.Index%2 == 1 {
		toFile = filepath.Join(dir, "diff.out")
		extra = append(extra, "-text-out", toFile)
		c.Count("text_out_file_runs", 1)
	}
	var res cliResult
	run := func() { res = runCLI(c, append(mkArgs(srcBaseArg, destBaseArg, patArg), extra...)...) }
	if noiseBase != "" {
		// other clients read the same files (and one of unrelated content) from the same server meanwhile
		withServerNoise(c, noiseBase, noiseFiles, run)
		c.Count("runs_with_concurrent_clients", 1)
	} else {
		run()
	}
	if toFile != "" {
		// the listing goes to the file: it must be complete there
		res.Stdout = string(readFileOrNil(toFile))
	}
	det := func() fw.J { return fw.J{"scenario": sc, "run": res.brief(), "fixture_clock": now} }
	c.Count("diff_runs", 1)
	if cliPanicked(res) {
		c.Violationf("panic", det(), "diff panicked")
		return
	}
	out := parseOutput(res.Stdout)
	baseKind := strings.Split(sc.Kind, "+")[0]
	switch baseKind {
	case "layout-mismatch":
		if res.Exit != 2 {
			c.Violationf("layout-mismatch-verdict", det(), "diff of files with different layouts exited %d, want an error (2)", res.Exit)
		} else {
			c.Count("layout_mismatch_error", 1)
			c.Nontrivial(fw.JSON(sc))
		}
		return
	case "missing-src", "missing-dest":
		if sc.Glob {
			break // handled per file below (only missing-dest can be glob)
		}
		if res.Exit != 1 || len(out.Errs) != 1 || !strings.Contains(out.Errs[0], "srcOrDest:") {
			c.Violationf("missing-side-verdict", det(), "diff with a %s exited %d with %d err: lines; want exit 1 and one err: line", sc.Kind, res.Exit, len(out.Errs))
			return
		}
		wantSide := "srcOrDest:source"
		if baseKind == "missing-dest" {
			wantSide = "srcOrDest:destination"
			c.Count("missing_dest", 1)
		} else {
			c.Count("missing_src", 1)
		}
		if !strings.Contains(out.Errs[0], wantSide) {
			c.Violationf("missing-side-label", det(), "err: line %q does not say %s", out.Errs[0], wantSide)
		}
		c.Nontrivial(fw.JSON(sc))
		return
	}
	if len(out.Nows) != len(sc.Files) {
		c.Violationf("diff-now-lines", det(), "diff printed %d now: lines for %d matched files", len(out.Nows), len(sc.Files))
		return
	}
	anyDiff := false
	nontrivial := false
	missing := 0
	for _, rel := range sc.Files {
		// files are matched by name: the order of the listing is not part of the property
		fi := -1
		for k := range out.Nows {
			if out.Nows[k].Name == rel || filepath.Base(out.Nows[k].Name) == rel {
				fi = k
			}
		}
		if fi < 0 {
			c.Violationf("diff-now-lines", det(), "the matched file %q has no now: line in the output: it was not compared", rel)
			return
		}
		nl := out.Nows[fi]
		until := sc.Until
		if until == 0 {
			until = nl.Now
		}
		end := len(out.Diffs)
		if fi+1 < len(out.Nows) {
			end = out.Nows[fi+1].DiffsFrom
		}
		got := out.Diffs[nl.DiffsFrom:end]
		if !fileExists(filepath.Join(destBase, rel)) {
			// glob with missing destinations: each is a reported difference with an err: line
			anyDiff = true
			missing++
			if len(got) != 0 {
				c.Violationf("diff-records-for-missing-file", det(), "diff listed %d records for %s whose destination is missing", len(got), rel)
				return
			}
			continue
		}
		want, compared, err := expectedDiffs(filepath.Join(aBase, rel), filepath.Join(destBase, rel), sc.Archive, sc.From, until, nl.Now)
		if err != nil {
			d := det()
			d["oracle_error"] = err.Error()
			c.Violationf("equal-layout-files-not-comparable", d, "files of equal layout cannot be compared over the window: %v (diff exited %d)", err, res.Exit)
			return
		}
		sort.SliceStable(want, func(i, j int) bool {
			if want[i].Arch != want[j].Arch {
				return want[i].Arch < want[j].Arch
			}
			return want[i].T < want[j].T
		})
		d := det()
		d["file"] = rel
		d["cmd_now"] = nl.Now
		if !checkDiffRecords(c, got, want, d) {
			return
		}
		if len(want) > 0 {
			anyDiff = true
			if int64(len(want)) < compared {
				nontrivial = true
			}
		}
	}
	if len(out.Errs) != missing {
		c.Violationf("missing-side-verdict", det(), "glob diff with %d missing destinations printed %d err: lines (exit %d)", missing, len(out.Errs), res.Exit)
		return
	}
	if missing > 0 {
		c.Count("missing_dest", 1)
	}
	wantExit := 0
	if anyDiff {
		wantExit = 1
	}
	if res.Exit != wantExit {
		c.Violationf("diff-verdict", det(), "diff exited %d, the files %s in the window (want %d)", res.Exit, map[bool]string{true: "differ", false: "do not differ"}[anyDiff], wantExit)
		return
	}
	if anyDiff {
		c.Count("diff_verdicts", 1)
	} else {
		c.Count("clean_verdicts", 1)
	}
	if baseKind == "identical-bytes" {
		c.Count("identical_files", 1)
	}
	if sc.Glob {
		n := 0
		for range differing {
			n++
		}
		if n == 1 {
			c.Count("glob_one_differs", 1)
		} else if n == 0 {
			c.Count("glob_none_differs", 1)
		}
	}
	// ---- symmetry: diff(b,a) in the same second gives the same verdict and mirrored records
	if !sc.Glob && sc.Kind != "self" && extra == nil && toFile == "" {
		res2 := runCLI(c, mkArgs(destBase, aBase, pat)...)
		out2 := parseOutput(res2.Stdout)
		if len(out2.Nows) == 1 && len(out.Nows) == 1 && out2.Nows[0].Now == out.Nows[0].Now {
			c.Count("symmetry_checked", 1)
			if res2.Exit != res.Exit || len(out2.Diffs) != len(out.Diffs) {
				c.Violationf("diff-not-symmetric", fw.J{"scenario": sc, "ab": res.brief(), "ba": res2.brief()}, "diff(a,b) exited %d with %d records, diff(b,a) exited %d with %d records at the same clock", res.Exit, len(out.Diffs), res2.Exit, len(out2.Diffs))
				return
			}
			byAT := func(d []diffLine) []diffLine {
				d = append([]diffLine(nil), d...)
				sort.SliceStable(d, func(i, j int) bool {
					if d[i].Arch != d[j].Arch {
						return d[i].Arch < d[j].Arch
					}
					return d[i].T < d[j].T
				})
				return d
			}
			ab, ba := byAT(out.Diffs), byAT(out2.Diffs)
			for i := range ab {
				x, y := ab[i], ba[i]
				if x.Arch != y.Arch || x.T != y.T || !sameFloat(x.Src, y.Dest) || !sameFloat(x.Dest, y.Src) {
					c.Violationf("diff-not-symmetric", fw.J{"scenario": sc, "ab_line": x.Raw, "ba_line": y.Raw}, "record %d of diff(b,a) is not the mirror of diff(a,b)", i)
					return
				}
			}
		}
	}
	// ---- one glob run holding BOTH a pair with unequal layouts and a pair that differs: unequal layouts are an error,
	// whatever else the run finds
	if sc.Glob && nfiles >= 2 && extra == nil && toFile == "" && !c.Violated() {
		other := model.Layout{Archs: append([]model.Arch(nil), l.Archs...), Method: l.Method, Xff: l.Xff}
		other.Archs[len(other.Archs)-1].Points += 1 + uint32(r.Intn(4))
		mi := r.Intn(2) // the mismatching pair comes first or second in glob order
		writeFixture(filepath.Join(bBase, sc.Files[mi]), other, genContent(r, other, now, 0.5), now)
		d := genContent(r, l, now, 0.6)
		writeFixture(filepath.Join(bBase, sc.Files[1-mi]), l, d, now)
		res3 := runCLI(c, mkArgs(aBase, bBase, pat)...)
		c.Count("glob_with_mismatch_and_difference", 1)
		if cliPanicked(res3) {
			c.Violationf("panic", fw.J{"scenario": sc, "run": res3.brief()}, "diff panicked")
			return
		}
		if res3.Exit != 2 {
			c.Violationf("layout-mismatch-verdict", fw.J{"scenario": sc, "run": res3.brief(), "mismatching_file": sc.Files[mi], "differing_file": sc.Files[1-mi]},
				"glob diff in which %s has unequal layouts and %s differs exited %d, want an error (2)", sc.Files[mi], sc.Files[1-mi], res3.Exit)
			return
		}
	}
	// ---- the same glob against a destination base that does not exist at all: every file is missing on that side, which
	// is a reported difference per file, not a failure of the run
	if sc.Glob && extra == nil && toFile == "" && !c.Violated() {
		res4 := runCLI(c, mkArgs(aBase, filepath.Join(dir, "no-such-base"), pat)...)
		out4 := parseOutput(res4.Stdout)
		c.Count("glob_against_a_nonexistent_destination_base", 1)
		if cliPanicked(res4) {
			c.Violationf("panic", fw.J{"scenario": sc, "run": res4.brief()}, "diff panicked")
			return
		}
		if res4.Exit != 1 || len(out4.Errs) != len(sc.Files) {
			c.Violationf("missing-side-verdict", fw.J{"scenario": sc, "run": res4.brief(), "files": len(sc.Files), "err_lines": len(out4.Errs)},
				"glob diff against a destination base that does not exist exited %d with %d err: lines for %d matched files; want exit 1 and one err: line per file", res4.Exit, len(out4.Errs), len(sc.Files))
			return
		}
	}
	if nontrivial {
		c.Nontrivial(fw.JSON(sc))
	}
	if c.Index < 64 {
		c.Sample(fw.J{"scenario": sc, "exit": res.Exit, "records": len(out.Diffs)})
	}
}
