package props

import (
	"bytes"
	"fmt"
	"io/ioutil"
	"math"
	"os"
	"os/exec"
	"path/filepath"
	"sort"
	"strconv"
	"strings"
	"time"

	wt "github.com/hnakamur/whispertool"

	"verifharness/fw"
	"verifharness/model"
)

// C18 view and view-raw show exactly what is stored.

type c18 struct{}

func init() { fw.Register(c18{}) }

func (c18) Meta() fw.Meta {
	return fw.Meta{
		ID: "C18",
		Rule: "case = one file (1-3 archives) holding values that need 17 significant digits, huge/tiny magnitudes, +-Inf, NaN-valued points, +-0, stale laps written at an earlier clock, possibly never-written archives; view and view-raw are run through the real binary inside a stable wall-clock second with -archive all/each id, windows {default, narrow, past, degenerate, from==until unaligned to the coarser steps, reaching beyond the viewer's clock with slots stamped ahead of it}, -header on/off, -sort on/off, process time zone {default, Tokyo, New York, UTC, Kolkata}. " +
			"oracle: view = header text (rendered independently from the layout) iff -header, then for each selected archive in order the points of FetchFromArchive at that second, in time order, times in UTC layout, values parsing back bit-exactly (NaN==NaN); " +
			"view-raw = the N physical slots of each selected archive (harness' own parse of the file bytes) restricted to from < t <= until (no lower bound for from 0, until extended by that archive's step when from == until), in physical order or stably sorted by time with -sort; " +
			"cross relation: every non-NaN view record inside the range appears in view-raw with identical time and value. " +
			"non-trivial = file with at least one special value class and one stale lap, compared in both commands; distinct by (layout, flags)." +
			" Every 7th file has the first slot of one archive zeroed (view-raw shows physical slots); every 8th case runs view and view-raw through the delayed single-threaded server on 1500-4000-point archives with concurrent clients." +
			" Every 6th case runs view and view-raw with -text-out /dev/full (exit 0 is a violation) and every 6th views a copy of the file whose non-last archive has a damaged first slot (exit 0 without lines for that archive is a violation)." +
			" Also: a stored maxRetention field that differs from the last archive's retention; a window ending exactly at now - maxRetention; three runs of view with the race-detector build per 4th case.",
		Assumptions: []string{
			"view reads the wall clock: the run is accepted only when the second did not change across the process (stable second); discarded runs are counted",
		},
		Obligations: []string{"view_runs", "view_raw_runs", "view_records_checked", "raw_records_checked", "header_checked", "no_header_checked", "sorted_raw", "unsorted_raw", "special_values_printed", "inf_printed", "stale_lap_in_raw", "degenerate_window", "single_archive_selection", "cross_relation_checked", "non_default_tz_runs", "slots_stamped_ahead_of_clock", "slots_stamped_beyond_2_31", "two_runs_one_textout_file", "files_with_empty_first_slot", "remote_runs_with_concurrent_clients", "runs_with_text_out_on_a_full_device", "race_built_view_runs"},
		Workers:     12,
	}
}

func (c18) Cases(tier string) int {
	if tier == "thorough" {
		return 16000
	}
	return 240
}

var c18Specials = []float64{
	0.1, 1.0 / 3.0, 123456789.12345679, 0.30000000000000004, 1e300, -1e300, 5e-324, 2.2250738585072014e-308, math.MaxFloat64, -math.MaxFloat64,
	9007199254740993, 1e19, -9.223372036854776e18, 1e21, 1e-7, math.Inf(1), math.Inf(-1), math.Copysign(0, -1), 0, 4.35, 100, 2.5e-10,
}

func (c18) Run(c *fw.Ctx) {
	r := c.Rng
	dir := c.TmpDir()
	l := cliLayout(r)
	// through the single-threaded server with delayed socket writes, other clients active (thorough: the first 500 such
	// cases, then every 5th of them - each costs seconds)
	remote := c.Index%8 == 5 && (c.Index < 4000 || c.Index%40 == 5)
	if remote {
		l = model.Layout{Archs: []model.Arch{{Step: 1, Points: uint32(1500 + r.Intn(2500))}, {Step: 60, Points: uint32(100 + r.Intn(300))}}, Method: 1 + r.Intn(6)}
	}
	l.Xff = 0
	wnow := time.Now().Unix()
	path := filepath.Join(dir, "v", "file.wsp")
	mustMkdir(filepath.Dir(path))
	db, err := createFile(path, l)
	if err != nil {
		panic(err)
	}
	neverWritten := -1
	if len(l.Archs) > 1 && r.Intn(4) == 0 {
		neverWritten = len(l.Archs) - 1
	}
	special, stale, infs := false, false, false
	// coarsest first so that propagation from finer archives does not write into a "never written" coarser one...
	for ai := len(l.Archs) - 1; ai >= 0; ai-- {
		a := l.Archs[ai]
		if ai == neverWritten {
			continue
		}
		if ai < neverWritten {
			continue // writing finer archives would propagate into the never-written one
		}
		// an older lap first
		if r.Intn(2) == 0 {
			old := wnow - a.Ret() - int64(a.Step)*int64(1+r.Intn(int(a.Points)))
			if old > a.Ret()+int64(a.Step) {
				var pts []wt.Point
				for i := 0; i < 1+r.Intn(5); i++ {
					pts = append(pts, wt.Point{Time: u32(old - int64(i)*int64(a.Step)), Value: wt.Value(777 + float64(i))})
				}
				db.UpdatePointsForArchive(pts, ai, u32(old))
				stale = true
			}
		}
		var pts []wt.Point
		lo := model.AlignNext(wnow-a.Ret(), a.Step)
		for t := lo; t <= wnow; t += int64(a.Step) {
			switch r.Intn(5) {
			case 0:
				continue
			case 1:
				v := c18Specials[r.Intn(len(c18Specials))]
				special = true
				if math.IsInf(v, 0) {
					infs = true
				}
				pts = append(pts, wt.Point{Time: u32(t), Value: wt.Value(v)})
			case 2:
				pts = append(pts, wt.Point{Time: u32(t), Value: wt.Value(math.NaN())})
			default:
				pts = append(pts, wt.Point{Time: u32(t), Value: wt.Value(math.Float64frombits(r.Uint64()&0x7fefffffffffffff | uint64(r.Intn(2))<<63))})
			}
		}
		db.UpdatePointsForArchive(pts, ai, u32(wnow))
	}
	// slots stamped AHEAD of the viewer's clock (the writer's clock was ahead): view-raw must show them when the
	// requested range reaches that far
	future := c.Index%5 == 3
	beyond31 := false
	if future {
		ai := len(l.Archs) - 1
		if neverWritten >= 0 {
			ai = neverWritten - 1
			if ai < 0 {
				ai = 0
			}
		}
		if ai >= neverWritten || neverWritten < 0 {
			a := l.Archs[ai]
			ahead := wnow + int64(a.Step)*int64(2+r.Intn(int(a.Points)/2+1))
			if c.Index%10 == 8 {
				// written by a host whose clock is beyond 2038-01-19 (time >= 2^31)
				ahead = model.AlignDown(int64(1)<<31+int64(r.Intn(1<<20)), a.Step) + int64(a.Step)*3
				beyond31 = true
				c.Count("slots_stamped_beyond_2_31", 1)
			}
			var pts []wt.Point
			for i := 0; i < 1+r.Intn(4); i++ {
				pts = append(pts, wt.Point{Time: u32(ahead - int64(i)*int64(a.Step)), Value: wt.Value(4242 + float64(i))})
			}
			db.UpdatePointsForArchive(pts, ai, u32(ahead))
			c.Count("slots_stamped_ahead_of_clock", 1)
		}
	}
	db.Sync()
	db.Close()
	if c.Index%7 == 4 {
		// a file whose first slot of an archive is empty although later slots hold points (a hole punched into it, or
		// another writer's placement): view-raw shows physical slots, whatever they hold
		if img := readFileOrNil(path); img != nil {
			ai := r.Intn(len(l.Archs))
			off := l.Offsets()[ai]
			for k := int64(0); k < 12; k++ {
				img[off+k] = 0
			}
			if err := ioutil.WriteFile(path, img, 0644); err != nil {
				panic(err)
			}
			c.Count("files_with_empty_first_slot", 1)
		}
	}
	storedMaxRet := l.MaxRet()
	if c.Index%7 == 5 && !remote {
		// a file whose stored maxRetention field is not what its last archive implies (written by another tool): the header
		// that view and view-raw print is the file's
		if img := readFileOrNil(path); len(img) > 8 {
			storedMaxRet = l.MaxRet() + int64(1+r.Intn(5))*int64(l.Archs[len(l.Archs)-1].Step)
			img[4], img[5], img[6], img[7] = byte(storedMaxRet>>24), byte(storedMaxRet>>16), byte(storedMaxRet>>8), byte(storedMaxRet)
			ioutil.WriteFile(path, img, 0644)
			c.Count("files_with_an_unusual_max_retention_field", 1)
		}
	}
	_, raw, _, err := rawOfFile(path)
	if err != nil {
		panic(err)
	}

	sel := -1
	if r.Intn(2) == 0 {
		sel = r.Intn(len(l.Archs))
		c.Count("single_archive_selection", 1)
	}
	header := r.Intn(2) == 0
	sorted := r.Intn(2) == 0
	var from, until int64
	a0 := l.Archs[0]
	window := []string{"default", "narrow", "past", "degenerate", "degenerate-unaligned", "default"}[c.Index%6]
	switch window {
	case "narrow":
		from = wnow - r.Int63n(a0.Ret()/2+1) - 2
		until = from + 1 + r.Int63n(4*int64(a0.Step)+1)
	case "past":
		until = wnow - a0.Ret()/3 - r.Int63n(a0.Ret()/3+1)
		from = until - r.Int63n(l.MaxRet()/2+1) - 1
	case "degenerate":
		from = wnow - r.Int63n(a0.Ret()) - 1
		until = from
		c.Count("degenerate_window", 1)
	case "degenerate-unaligned":
		// from == until, not aligned to the coarser steps, shortly before a coarse slot that holds a value
		la := l.Archs[len(l.Archs)-1]
		from = model.AlignDown(wnow-int64(la.Step)*int64(1+r.Intn(3)), la.Step) - 1 - r.Int63n(int64(la.Step)-1+1)%int64(la.Step)
		until = from
		c.Count("degenerate_window", 1)
	}
	if window != "default" && from < 1 {
		from, until = 1, maxI64(until, 1)
	}
	if future {
		// a range reaching beyond the viewer's clock
		window = "into-the-future"
		from = wnow - r.Int63n(a0.Ret()/2+1)
		until = wnow + l.MaxRet() + int64(r.Intn(1000))
		if beyond31 {
			// everything from the epoch (never-written slots have time 0) to beyond 2^31, sorted
			from, until = 0, int64(1)<<31+int64(1)<<21
			sorted = true
		}
	}
	// the local time zone of the process must not matter: times are printed in UTC
	zone := []string{"", "TZ=Asia/Tokyo", "TZ=America/New_York", "TZ=UTC", "TZ=Asia/Kolkata"}[r.Intn(5)]
	if zone != "" {
		c.Env.State["cli_env"] = []string{zone}
		defer delete(c.Env.State, "cli_env")
		c.Count("non_default_tz_runs", 1)
	}
	flags := []string{"-src-base", filepath.Dir(path), "-src", "file.wsp", "-archive", strconv.Itoa(sel), fmt.Sprintf("-header=%v", header)}
	noiseBase, noiseFiles := "", []string(nil)
	if remote {
		if u, served, ok := workerServer1P(c); ok {
			name := fmt.Sprintf("c18-%d", c.Index)
			link := filepath.Join(served, name)
			os.Symlink(filepath.Dir(path), link)
			defer os.Remove(link)
			for _, n := range []string{"n1.wsp", "n2.wsp"} {
				writeFixture(filepath.Join(filepath.Dir(path), n), l, genContent(r, l, wnow, 0.9), wnow)
				noiseFiles = append(noiseFiles, filepath.Join(name, n))
			}
			noiseFiles = append(noiseFiles, filepath.Join(name, "file.wsp"))
			noiseBase = u
			flags[1], flags[3] = u, filepath.Join(name, "file.wsp")
			c.Count("remote_runs_with_concurrent_clients", 1)
		}
	}
	stable := func(args ...string) (res cliResult, ok bool) {
		if noiseBase == "" {
			return runCLIStable(c, nil, args...)
		}
		withServerNoise(c, noiseBase, noiseFiles, func() { res, ok = runCLIStable(c, nil, args...) })
		return
	}
	if window != "default" {
		flags = append(flags, "-from", tsArg(from), "-until", tsArg(until))
	}
	sc := fw.J{"layout": l.String(), "archive": sel, "header": header, "sort": sorted, "window": window, "from": from, "until": until, "never_written_archive": neverWritten, "tz": zone, "future_stamped_slots": future}

	// ---- view
	res, ok := stable(append([]string{"view"}, flags...)...)
	if !ok {
		c.Count("skipped_no_stable_second", 1)
		return
	}
	det := func(r cliResult) fw.J { return fw.J{"scenario": sc, "run": r.brief(), "cmd_now": r.T0} }
	if cliPanicked(res) {
		c.Violationf("panic", det(res), "view panicked")
		return
	}
	if res.Exit != 0 {
		c.Violationf("view-failed", det(res), "view exited %d: %s", res.Exit, truncStr(res.Stderr, 300))
		return
	}
	c.Count("view_runs", 1)
	now := res.T0
	vu := until
	if window == "default" {
		vu = now
	}
	out := parseOutput(res.Stdout)
	wantHdr := headerText(l)
	if storedMaxRet != l.MaxRet() {
		wantHdr[0] = strings.Replace(wantHdr[0], "maxRetention:"+durText(l.MaxRet()), "maxRetention:"+durText(storedMaxRet), 1)
	}
	if header {
		c.Count("header_checked", 1)
		if strings.Join(out.HeaderLines, "\n") != strings.Join(wantHdr, "\n") {
			c.Violationf("view-header", fw.J{"scenario": sc, "got": out.HeaderLines, "want": wantHdr}, "view header differs from the file's header")
			return
		}
	} else {
		c.Count("no_header_checked", 1)
		if len(out.HeaderLines) != 0 {
			c.Violationf("view-header", det(res), "view -header=false printed header lines")
			return
		}
	}
	if len(out.Other) != 0 {
		c.Violationf("view-unparsable-lines", fw.J{"scenario": sc, "lines": out.Other[:minI(len(out.Other), 5)]}, "view printed lines that are neither header nor point records: %q", out.Other[0])
		return
	}
	tsl, _, err := fetchArchives(path, sel, from, vu, now)
	if err != nil {
		panic(err)
	}
	var want []pointLine
	for ai := range tsl {
		if tsl[ai] == nil {
			continue
		}
		for j, v := range tsl[ai].Values() {
			want = append(want, pointLine{Arch: ai, T: int64(tsl[ai].FromTime()) + int64(j)*int64(tsl[ai].Step()), V: float64(v)})
		}
	}
	if !comparePointLines(c, "view", out.Points, want, det(res)) {
		return
	}
	c.Count("view_records_checked", int64(len(want)))

	// ---- view-raw
	rflags := append([]string{"view-raw"}, flags...)
	if sorted {
		rflags = append(rflags, "-sort")
	}
	rres, ok := stable(rflags...)
	if !ok {
		c.Count("skipped_no_stable_second", 1)
		return
	}
	if cliPanicked(rres) {
		c.Violationf("panic", det(rres), "view-raw panicked")
		return
	}
	if rres.Exit != 0 {
		c.Violationf("view-raw-failed", det(rres), "view-raw exited %d: %s", rres.Exit, truncStr(rres.Stderr, 300))
		return
	}
	c.Count("view_raw_runs", 1)
	rnow := rres.T0
	ru := until
	if window == "default" {
		ru = rnow
	}
	rout := parseOutput(rres.Stdout)
	if header && strings.Join(rout.HeaderLines, "\n") != strings.Join(wantHdr, "\n") {
		c.Violationf("view-raw-header", fw.J{"scenario": sc, "got": rout.HeaderLines, "want": wantHdr}, "view-raw header differs from the file's header")
		return
	}
	var wantRaw []pointLine
	for ai, a := range l.Archs {
		if sel != -1 && sel != ai {
			continue
		}
		u := ru
		if u == from {
			u += int64(a.Step)
		}
		var pts []pointLine
		for _, s := range raw[ai] {
			t := int64(s.T)
			if (from != 0 && t <= from) || t > u {
				continue
			}
			pts = append(pts, pointLine{Arch: ai, T: t, V: s.Val()})
			if s.T != 0 && t <= wnow-a.Ret() {
				c.Count("stale_lap_in_raw", 1)
			}
		}
		if sorted {
			sort.SliceStable(pts, func(i, j int) bool { return pts[i].T < pts[j].T })
		}
		wantRaw = append(wantRaw, pts...)
	}
	if sorted {
		c.Count("sorted_raw", 1)
	} else {
		c.Count("unsorted_raw", 1)
	}
	if !comparePointLines(c, "view-raw", rout.Points, wantRaw, det(rres)) {
		return
	}
	c.Count("raw_records_checked", int64(len(wantRaw)))
	if special {
		c.Count("special_values_printed", 1)
	}
	if infs {
		c.Count("inf_printed", 1)
	}
	// ---- cross relation
	if rnow == now || window != "default" {
		for _, p := range out.Points {
			a := l.Archs[p.Arch]
			u := ru
			if u == from {
				u += int64(a.Step)
			}
			if math.IsNaN(p.V) || !(p.T > from || from == 0) || p.T > u {
				continue
			}
			found := false
			for _, q := range rout.Points {
				if q.Arch == p.Arch && q.T == p.T && sameFloat(q.V, p.V) {
					found = true
					break
				}
			}
			c.Count("cross_relation_checked", 1)
			if !found {
				c.Violationf("view-point-missing-in-view-raw", fw.J{"scenario": sc, "view_line": p.Raw, "view": res.brief(), "view_raw": rres.brief()}, "view shows %q but view-raw over the same range does not show that point", p.Raw)
				return
			}
		}
	}
	// two runs of view into ONE -text-out file (a wide window, then a narrow one): the file must consist of
	// well-formed lines only and contain the complete output of the second run as one block
	if c.Index%6 == 2 {
		tf := filepath.Join(dir, "two-runs.out")
		wide := []string{"view", "-src-base", filepath.Dir(path), "-src", "file.wsp", "-archive", strconv.Itoa(sel), "-text-out", tf}
		narrow := append(append([]string{}, wide...), "-from", tsArg(wnow-int64(a0.Step)*3), "-until", tsArg(wnow-int64(a0.Step)), "-header=false")
		r1 := runCLI(c, wide...)
		r2 := runCLI(c, narrow...)
		if r1.Exit == 0 && r2.Exit == 0 {
			so := runCLI(c, append(append([]string{}, narrow[:len(narrow)-1]...), "-header=false", "-text-out", "-")...) // same request to stdout
			content := string(readFileOrNil(tf))
			po := parseOutput(content)
			c.Count("two_runs_one_textout_file", 1)
			if len(po.Other) > 0 {
				c.Violationf("text-out-file-torn-lines", fw.J{"scenario": sc, "bad_lines": po.Other[:minI(len(po.Other), 3)]}, "after two runs into one -text-out file it contains malformed lines, e.g. %q", po.Other[0])
				return
			}
			if so.T0 == so.T1 && r2.T0 == so.T0 && !strings.Contains(content, so.Stdout) {
				c.Violationf("text-out-file-incomplete", fw.J{"scenario": sc}, "the -text-out file does not contain the complete output of the second run")
				return
			}
		}
	}
	// view of all archives with the race-detector build of the command: the per-archive fetches of one view are
	// free of data races (a race report on stderr is a violation; so is output that differs from the plain build's)
	if c.Index%4 == 0 && noiseBase == "" && len(l.Archs) >= 2 && !c.Violated() {
		rb := filepath.Join(c.Env.BuildDir, "whispertool-race")
		if fileExists(rb) {
			for k := 0; k < 3; k++ {
				cmd := exec.Command(rb, "view", "-src-base", filepath.Dir(path), "-src", "file.wsp", "-archive", "-1", "-header=false", "-from", tsArg(wnow-l.MaxRet()+1), "-until", tsArg(wnow))
				cmd.Env = append(os.Environ(), "GORACE=halt_on_error=0")
				var so, se bytes.Buffer
				cmd.Stdout, cmd.Stderr = &so, &se
				cmd.Run()
				c.Count("race_built_view_runs", 1)
				if strings.Contains(se.String(), "WARNING: DATA RACE") {
					c.Violationf("race:cli:view", fw.J{"scenario": sc, "report": truncStr(se.String(), 3000)}, "the race detector reported a data race inside view")
					return
				}
			}
		}
	}
	// a window that ends EXACTLY one maximum retention before the command's clock (to the second): the coarsest archive's
	// oldest live slot is still reported by a fetch, so view prints it
	if c.Index%6 == 3 && noiseBase == "" && !c.Violated() {
		for try := 0; try < 6; try++ {
			ns := time.Now().Nanosecond()
			if ns > 250e6 {
				time.Sleep(time.Duration(1e9-ns) + 5*time.Millisecond)
			}
			n0 := time.Now().Unix()
			u := n0 - l.MaxRet()
			f := u - int64(l.Archs[len(l.Archs)-1].Step)*2
			if f < 1 {
				break
			}
			res := runCLI(c, "view", "-src-base", filepath.Dir(path), "-src", "file.wsp", "-archive", "-1", "-header=false", "-from", tsArg(f), "-until", tsArg(u))
			if res.T0 != n0 || res.T1 != n0 {
				continue // the second changed: not judged
			}
			c.Count("views_ending_exactly_at_the_maximum_retention", 1)
			if res.Exit != 0 || cliPanicked(res) {
				c.Violationf("view-failed", fw.J{"scenario": sc, "run": res.brief()}, "view of a window ending at now - maxRetention exited %d", res.Exit)
				return
			}
			tsl, _, err := fetchArchives(path, -1, f, u, n0)
			if err != nil {
				break
			}
			var want []pointLine
			for ai := range tsl {
				if tsl[ai] == nil {
					continue
				}
				for j, v := range tsl[ai].Values() {
					want = append(want, pointLine{Arch: ai, T: int64(tsl[ai].FromTime()) + int64(j)*int64(tsl[ai].Step()), V: float64(v)})
				}
			}
			if !comparePointLines(c, "view", parseOutput(res.Stdout).Points, want, fw.J{"scenario": sc, "run": res.brief(), "cmd_now": n0, "window": "ends exactly at now - maxRetention"}) {
				return
			}
			break
		}
	}
	// the text output on a full device: nothing of what view / view-raw "print" can arrive, so neither may report success
	if c.Index%6 == 4 && noiseBase == "" {
		for _, cmdName := range []string{"view", "view-raw"} {
			res := runCLI(c, cmdName, "-src-base", filepath.Dir(path), "-src", "file.wsp", "-archive", strconv.Itoa(sel), "-text-out", "/dev/full")
			c.Count("runs_with_text_out_on_a_full_device", 1)
			if cliPanicked(res) {
				c.Violationf("panic", fw.J{"scenario": sc, "run": res.brief()}, "%s panicked", cmdName)
				return
			}
			if res.Exit == 0 {
				c.Violationf(cmdName+"-output-lost-silently", fw.J{"scenario": sc, "run": res.brief()}, "%s -text-out /dev/full exited 0: none of its lines can have been written", cmdName)
				return
			}
		}
	}
	// an archive that is not the last one has a damaged first slot (its time is not a multiple of the step): view cannot
	// print that archive's window, so it must not report success while leaving the archive out
	if c.Index%6 == 1 && noiseBase == "" && len(l.Archs) >= 2 {
		for ai := 0; ai < len(l.Archs)-1; ai++ {
			if l.Archs[ai].Step < 2 || raw[ai][0].T == 0 {
				continue
			}
			img := readFileOrNil(path)
			off := l.Offsets()[ai]
			t := raw[ai][0].T + 1
			img[off], img[off+1], img[off+2], img[off+3] = byte(t>>24), byte(t>>16), byte(t>>8), byte(t)
			dp := filepath.Join(dir, "v", "damaged.wsp")
			ioutil.WriteFile(dp, img, 0644)
			res := runCLI(c, "view", "-src-base", filepath.Dir(dp), "-src", "damaged.wsp", "-archive", "-1", "-header=false")
			c.Count("views_of_a_file_with_a_damaged_inner_archive", 1)
			if cliPanicked(res) {
				c.Violationf("panic", fw.J{"scenario": sc, "run": res.brief()}, "view panicked on a damaged archive")
				return
			}
			if res.Exit == 0 {
				got := 0
				for _, p := range parseOutput(res.Stdout).Points {
					if p.Arch == ai {
						got++
					}
				}
				if got == 0 {
					c.Violationf("view-omits-an-archive-silently", fw.J{"scenario": sc, "run": res.brief(), "damaged_archive": ai},
						"archive %d has a damaged first slot; view of all archives exited 0 and printed no line for it", ai)
					return
				}
			}
			break
		}
	}
	if special && stale {
		c.Nontrivial(fw.JSON(sc))
	}
	if c.Index < 64 {
		c.Sample(fw.J{"scenario": sc, "view_records": len(want), "view_raw_records": len(wantRaw)})
	}
}

func comparePointLines(c *fw.Ctx, cmd string, got, want []pointLine, det fw.J) bool {
	if len(got) != len(want) {
		det["got_records"], det["want_records"] = len(got), len(want)
		if len(want) > 0 {
			det["first_expected"] = fmt.Sprintf("archive %d t %d val %v", want[0].Arch, want[0].T, want[0].V)
		}
		c.Violationf(cmd+"-record-count", det, "%s printed %d point records, expected %d", cmd, len(got), len(want))
		return false
	}
	for i := range got {
		if got[i].Arch != want[i].Arch || got[i].T != want[i].T || !sameFloat(got[i].V, want[i].V) {
			det["record_index"] = i
			det["got_line"] = got[i].Raw
			det["want"] = fmt.Sprintf("archive %d t %d (%s) val %v", want[i].Arch, want[i].T, wt.Timestamp(want[i].T).String(), want[i].V)
			c.Violationf(cmd+"-record-wrong", det, "%s record %d is %q, expected archive %d t %s val %v", cmd, i, got[i].Raw, want[i].Arch, renderTimestamp(uint32(want[i].T)), want[i].V)
			return false
		}
	}
	return true
}
