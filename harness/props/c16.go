package props

import (
	"bytes"
	"fmt"
	"io/ioutil"
	"math"
	"os"
	"path/filepath"
	"strconv"
	"strings"
	"time"

	wt "github.com/hnakamur/whispertool"

	"verifharness/fw"
	"verifharness/model"
)

// C16 Commands fail loudly: no panic and no silent success.

type c16 struct{}

func init() { fw.Register(c16{}) }

var c16Cmds = []string{"view", "view-raw", "diff", "copy", "sum", "sum-copy", "sum-diff", "generate"}
var c16Faults = []string{"none", "none", "textout-missing-dir", "textout-is-dir", "textout-unwritable", "textout-dev-full", "source-missing", "source-garbage", "source-truncated", "dest-readonly-dir", "dest-parent-is-file", "layout-mismatch", "dest-missing", "empty-sources-dest-absent", "dest-write-fails", "remote-no-match", "item-matches-non-directories", "many-slow-sources", "method-not-storable", "source-count-beyond-a-page", "glob-many-files", "new-dest-other-layout", "dest-coarser-equal-finer-differs"}
var c16Archs = []string{"all", "first", "last", "n", "-2"}
var c16Windows = []string{"default", "past-inside", "future", "older-than-finest", "older-than-all", "degenerate"}
var c16TextOuts = []string{"file", "", "-"}

func (c16) Meta() fw.Meta {
	return fw.Meta{
		ID: "C16",
		Rule: "case = one invocation of the real binary from the product subcommand {view, view-raw, diff, copy, sum, sum-copy, sum-diff, generate} x archive selection {all, first, last, n (out of range), -2} x window {default, past inside, future, older than the finest retention, older than all, degenerate} " +
			"x fault {none, -text-out in a non-existent directory / is a directory / unwritable (child runs as uid 65534) / on a full device, source missing / garbage / truncated, destination directory read-only for the child's uid / parent is a regular file, layout mismatch, destination missing, never-written sources with an absent destination, every page write to the destination failing with ENOSPC (strace injection into pwritev), a server URL as source with a pattern matching nothing, an item pattern matching only a regular file and a dangling symlink, an item of 70-110 sources all locked for 400 ms (no fault)} x -text-out {file, empty, stdout}. " +
			"quick covers every (subcommand, fault) and (subcommand, archive selection) pair with windows and text-out modes cycling; thorough enumerates the whole product. " +
			"oracle: output never contains a Go panic/fatal error and the process is not killed by a signal; exit 0 (or 1 for diff/sum-diff) => the work is observable: the -text-out file exists and holds the command's output (header, now: lines, the number of point lines the library computes for that window), copy/sum-copy destinations satisfy the C08/C11 effect oracle, generate's file exists with the requested header; " +
			"an unopenable or unflushable -text-out, a missing/garbage/truncated input, an out-of-range archive id, an uncreatable destination or a layout mismatch => exit != 0 (the exact verdict for a missing side of diff is C09's business). " +
			"non-trivial = invocation with a fault or an absent-series situation (single archive / window outside a retention); distinct by the combination.",
		Assumptions: []string{
			"the harness runs as root and drops the child to uid 65534 for the permission faults; scratch directories are made world-traversable for those cases",
			"point-line counts are only compared when the second did not change across the process",
		},
		Obligations: []string{"invocations", "success_effect_checked", "fault_reported", "textout_file_checked", "absent_series_invocations", "out_of_range_archive_reported", "diff_missing_side_exit1", "uid_dropped_runs", "two_item_fault_runs", "created_with_nothing_to_copy_runs", "destination_write_failures_injected", "remote_no_match_runs", "item_matches_non_directories_runs", "many_slow_sources_runs", "method_not_storable_runs", "source_count_beyond_a_page_runs", "glob_copies_over_many_files", "new_destination_with_another_layout_runs", "copies_onto_coarser_equal_finer_differs"},
		Workers:     12,
		Level:       "fault_enumeration",
	}
}

func (c16) Cases(tier string) int {
	if tier == "thorough" {
		return len(c16Cmds) * len(c16Faults) * len(c16Archs) * len(c16Windows) * len(c16TextOuts)
	}
	return len(c16Cmds) * len(c16Faults) * len(c16Archs)
}

func chmodUp(from, stop string) {
	for p := from; strings.HasPrefix(p, stop) && len(p) >= len(stop); p = filepath.Dir(p) {
		os.Chmod(p, 0755)
		if p == stop {
			break
		}
	}
}

func (c16) Run(c *fw.Ctx) {
	r := c.Rng
	i := c.Index
	cmdName := c16Cmds[i%len(c16Cmds)]
	i /= len(c16Cmds)
	fault := c16Faults[i%len(c16Faults)]
	i /= len(c16Faults)
	archSel := c16Archs[i%len(c16Archs)]
	i /= len(c16Archs)
	var window, textOut string
	if c.Tier == "thorough" {
		window = c16Windows[i%len(c16Windows)]
		i /= len(c16Windows)
		textOut = c16TextOuts[i%len(c16TextOuts)]
	} else {
		window = c16Windows[(c.Index/len(c16Cmds)+c.Index)%len(c16Windows)]
		textOut = c16TextOuts[(c.Index/7)%len(c16TextOuts)]
	}
	if strings.HasPrefix(fault, "textout-") {
		textOut = "file"
	}
	if fault == "glob-many-files" && cmdName == "copy" {
		textOut = []string{"file", "-"}[c.Index%2]
	}
	if fault == "dest-coarser-equal-finer-differs" && cmdName == "copy" {
		archSel = "all" // the scenario is about copying every archive
		if window != "default" && window != "past-inside" {
			window = "default"
		}
	}

	dir := c.TmpDir()
	// make the scratch path traversable for the uid-dropped child
	chmodUp(dir, filepath.Dir(filepath.Dir(c.Env.Tmp))) // up to and including this run's own vcheck-* directory, never beyond
	os.Chmod(dir, 0755)
	l := model.Layout{Archs: []model.Arch{{Step: 1, Points: uint32(20 + r.Intn(20))}, {Step: 5, Points: uint32(20 + r.Intn(10))}, {Step: 30, Points: uint32(12 + r.Intn(10))}}, Method: 2, Xff: 0}
	now := time.Now().Unix()
	srcBase, destBase := filepath.Join(dir, "src"), filepath.Join(dir, "dest")
	item := "grp"
	tree := sumTree{Base: srcBase, L: l, Items: map[string][]string{item: {"a.wsp", "b.wsp"}}, Now: now}
	srcContentA := genContent(r, l, now, 0.7)
	writeFixture(filepath.Join(srcBase, item, "a.wsp"), l, srcContentA, now)
	writeFixture(filepath.Join(srcBase, item, "b.wsp"), l, genContent(r, l, now, 0.7), now)
	mustMkdir(filepath.Join(destBase, item))
	destFile := filepath.Join(destBase, item, "a.wsp") // copy/diff destination
	sumDest := filepath.Join(destBase, item, "sum.wsp")
	writeFixture(destFile, l, genContent(r, l, now, 0.7), now)
	writeFixture(sumDest, l, genContent(r, l, now, 0.7), now)
	genDest := filepath.Join(dir, "gen", "new.wsp")
	mustMkdir(filepath.Dir(genDest))

	sel := -1
	switch archSel {
	case "first":
		sel = 0
	case "last":
		sel = len(l.Archs) - 1
	case "n":
		sel = len(l.Archs)
	case "-2":
		sel = -2
	}
	var from, until int64
	a0 := l.Archs[0]
	switch window {
	case "past-inside":
		until = now - a0.Ret()/3
		from = until - a0.Ret()/3
	case "future":
		from, until = now+100, now+200
	case "older-than-finest":
		until = now - a0.Ret() - 3
		from = until - 20
	case "older-than-all":
		until = now - l.MaxRet() - 10
		from = until - 50
	case "degenerate":
		from = now - a0.Ret()/2
		until = from
	}
	winArgs := []string{}
	if window != "default" {
		winArgs = []string{"-from", tsArg(from), "-until", tsArg(until)}
	}
	retArgs := []string{"-agg-method", "sum", "-x-files-factor", "0", "-retentions", l.RetentionString()}
	var args []string
	switch cmdName {
	case "view":
		args = append([]string{"view", "-src-base", filepath.Join(srcBase, item), "-src", "a.wsp", "-archive", strconv.Itoa(sel)}, winArgs...)
	case "view-raw":
		args = append([]string{"view-raw", "-src-base", filepath.Join(srcBase, item), "-src", "a.wsp", "-archive", strconv.Itoa(sel)}, winArgs...)
	case "diff":
		args = append([]string{"diff", "-src-base", filepath.Join(srcBase, item), "-src", "a.wsp", "-dest-base", filepath.Join(destBase, item), "-archive", strconv.Itoa(sel)}, winArgs...)
	case "copy":
		args = append(append([]string{"copy", "-src-base", filepath.Join(srcBase, item), "-src", "a.wsp", "-dest-base", filepath.Join(destBase, item), "-archive", strconv.Itoa(sel)}, retArgs...), winArgs...)
	case "sum":
		args = append([]string{"sum", "-src-base", srcBase, "-item", item, "-src", "*.wsp", "-archive", strconv.Itoa(sel)}, winArgs...)
	case "sum-copy":
		args = append(append([]string{"sum-copy", "-src-base", srcBase, "-item", item, "-src", "*.wsp", "-dest-base", destBase, "-dest", "sum.wsp", "-archive", strconv.Itoa(sel)}, retArgs...), winArgs...)
	case "sum-diff":
		args = append([]string{"sum-diff", "-src-base", srcBase, "-item", item, "-src", "*.wsp", "-dest-base", destBase, "-dest", "sum.wsp", "-archive", strconv.Itoa(sel)}, winArgs...)
	case "generate":
		args = append([]string{"generate", "-dest", genDest}, retArgs...)
		if c.Index%3 == 1 {
			args = append(args, "-fill=false")
		}
	}
	// the sum family with TWO items when an input fault is injected into the first one: a good last item
	// must not hide the failure of an earlier one
	twoItems := (cmdName == "sum" || cmdName == "sum-copy" || cmdName == "sum-diff") && (fault == "source-garbage" || fault == "source-truncated" || fault == "layout-mismatch")
	if twoItems {
		writeFixture(filepath.Join(srcBase, "grpz", "a.wsp"), l, genContent(r, l, now, 0.7), now)
		writeFixture(filepath.Join(srcBase, "grpz", "b.wsp"), l, genContent(r, l, now, 0.7), now)
		writeFixture(filepath.Join(destBase, "grpz", "sum.wsp"), l, genContent(r, l, now, 0.7), now)
		for i := range args {
			if args[i] == "-item" {
				args[i+1] = "grp*"
			}
		}
		c.Count("two_item_fault_runs", 1)
	}
	hasArchive := cmdName != "generate"
	hasWindow := cmdName != "generate"
	hasSource := cmdName != "generate"
	hasDest := cmdName == "diff" || cmdName == "copy" || cmdName == "sum-copy" || cmdName == "sum-diff" || cmdName == "generate"
	writesDest := cmdName == "copy" || cmdName == "sum-copy" || cmdName == "generate"

	// ---- text-out
	toFile := filepath.Join(dir, "out", "text.out")
	mustMkdir(filepath.Dir(toFile))
	os.Chmod(filepath.Dir(toFile), 0777)
	uid := uint32(0)
	expectFail := ""
	straceLog := ""
	globMany := false
	switch fault {
	case "textout-missing-dir":
		toFile = filepath.Join(dir, "no", "such", "dir", "text.out")
		expectFail = "text-out cannot be opened"
	case "textout-is-dir":
		toFile = filepath.Join(dir, "out")
		expectFail = "text-out is a directory"
	case "textout-unwritable":
		os.Chmod(filepath.Dir(toFile), 0555)
		uid = 65534
		expectFail = "text-out cannot be created by this uid"
	case "textout-dev-full":
		toFile = "/dev/full"
		expectFail = "text-out cannot be flushed (device full)"
	case "source-missing":
		if hasSource {
			os.Remove(filepath.Join(srcBase, item, "a.wsp"))
			if cmdName == "sum" || cmdName == "sum-copy" || cmdName == "sum-diff" {
				os.Remove(filepath.Join(srcBase, item, "b.wsp"))
			}
			expectFail = "source missing"
		}
	case "source-garbage":
		if hasSource {
			ioutil.WriteFile(filepath.Join(srcBase, item, "a.wsp"), bytes.Repeat([]byte("garbage!"), 40), 0644)
			expectFail = "source is garbage"
		}
	case "source-truncated":
		if hasSource {
			b := readFileOrNil(filepath.Join(srcBase, item, "a.wsp"))
			ioutil.WriteFile(filepath.Join(srcBase, item, "a.wsp"), b[:len(b)/2], 0644)
			expectFail = "source is truncated"
		}
	case "dest-readonly-dir":
		if writesDest {
			os.Remove(destFile)
			os.Remove(sumDest)
			os.Chmod(filepath.Join(destBase, item), 0555)
			os.Chmod(filepath.Dir(genDest), 0555)
			uid = 65534
			expectFail = "destination cannot be created by this uid"
		}
	case "dest-parent-is-file":
		if writesDest {
			os.RemoveAll(filepath.Join(destBase, item))
			ioutil.WriteFile(filepath.Join(destBase, item), []byte("x"), 0644)
			os.RemoveAll(filepath.Dir(genDest))
			ioutil.WriteFile(filepath.Dir(genDest), []byte("x"), 0644)
			expectFail = "destination's parent is a regular file"
		}
	case "layout-mismatch":
		other := model.Layout{Archs: []model.Arch{{Step: 1, Points: l.Archs[0].Points + 3}, l.Archs[1], l.Archs[2]}, Method: 2, Xff: 0}
		switch cmdName {
		case "diff", "copy":
			writeFixture(destFile, other, genContent(r, other, now, 0.5), now)
			expectFail = "layout mismatch"
		case "sum-copy", "sum-diff":
			writeFixture(sumDest, other, genContent(r, other, now, 0.5), now)
			expectFail = "layout mismatch"
		case "sum":
			writeFixture(filepath.Join(srcBase, item, "b.wsp"), other, genContent(r, other, now, 0.5), now)
			expectFail = "layout mismatch"
		case "generate":
			// existing destination
			writeFixture(genDest, l, genContent(r, l, now, 0.5), now)
			expectFail = "destination exists"
		}
	case "empty-sources-dest-absent":
		// not a fault at all: never-written sources and no destination yet. copy / sum-copy must still create a
		// destination that every other command can open (the header must reach the disk)
		if cmdName == "copy" || cmdName == "sum-copy" {
			for _, n := range []string{"a.wsp", "b.wsp"} {
				p := filepath.Join(srcBase, item, n)
				os.Remove(p)
				db, err := createFile(p, l)
				if err != nil {
					panic(err)
				}
				db.Sync()
				db.Close()
			}
			os.Remove(destFile)
			os.Remove(sumDest)
			c.Count("created_with_nothing_to_copy_runs", 1)
		}
	case "remote-no-match":
		// the source base is a server and the pattern matches nothing there: an input is missing
		if hasSource {
			if u, _, ok := workerServer(c); ok {
				for i := range args {
					switch args[i] {
					case "-src-base":
						args[i+1] = u
					case "-src":
						if cmdName == "view" || cmdName == "view-raw" || cmdName == "diff" || cmdName == "copy" {
							args[i+1] = "zz-no-such-*/nothing*.wsp"
						}
					case "-item":
						args[i+1] = "zz-no-such-item*"
					}
				}
				expectFail = "remote source pattern matches nothing"
				c.Count("remote_no_match_runs", 1)
			}
		}
	case "item-matches-non-directories":
		// the item pattern matches names, but only a regular file and a dangling symlink: no input can be read
		if cmdName == "sum" || cmdName == "sum-copy" || cmdName == "sum-diff" {
			ioutil.WriteFile(filepath.Join(srcBase, "stray1"), []byte("not a directory"), 0644)
			os.Symlink(filepath.Join(srcBase, "gone"), filepath.Join(srcBase, "stray2"))
			for i := range args {
				if args[i] == "-item" {
					args[i+1] = "stray*"
				}
			}
			expectFail = "item pattern matches only non-directories"
			c.Count("item_matches_non_directories_runs", 1)
		}
	case "new-dest-other-layout":
		// the destination does not exist and the requested -retentions differ from the source's in the COARSEST archive
		// only, while the selection (-archive 0 / a short recent window) never looks at that archive: still a mismatch
		if (cmdName == "copy" || cmdName == "sum-copy") && (archSel == "first" || window == "past-inside" || window == "degenerate") {
			os.Remove(destFile)
			os.Remove(sumDest)
			other := model.Layout{Archs: []model.Arch{l.Archs[0], l.Archs[1], {Step: l.Archs[2].Step, Points: l.Archs[2].Points + 2}}}
			for i := range args {
				if args[i] == "-retentions" {
					args[i+1] = other.RetentionString()
				}
			}
			expectFail = "layout mismatch"
			c.Count("new_destination_with_another_layout_runs", 1)
		}
	case "dest-coarser-equal-finer-differs":
		// not a fault: the destination's coarser archives equal the source's, its finest differs, and the source's coarser
		// slots are NOT the aggregates of its finer ones - after a successful copy the destination equals the source
		if cmdName == "copy" && (archSel == "all") {
			d := cloneContent(srcContentA)
			perturb(r, d, []int{0}, 3+r.Intn(4))
			writeFixture(destFile, l, d, now)
			c.Count("copies_onto_coarser_equal_finer_differs", 1)
		}
	case "many-slow-sources":
		// not a fault: an item with many source files, every one of them locked by another process for a moment when
		// the command starts (all readers are in flight at once)
		if cmdName == "sum" || cmdName == "sum-copy" || cmdName == "sum-diff" {
			var holds []*wt.Whisper
			for k := 0; k < 70+r.Intn(40); k++ {
				n := fmt.Sprintf("c%03d.wsp", k)
				writeFixture(filepath.Join(srcBase, item, n), l, genContent(r, l, now, 0.3), now)
				tree.Items[item] = append(tree.Items[item], n)
			}
			for _, n := range tree.Items[item] {
				if h, err := wt.Open(filepath.Join(srcBase, item, n)); err == nil {
					holds = append(holds, h)
				}
			}
			go func() {
				time.Sleep(400 * time.Millisecond)
				for _, h := range holds {
					h.Close()
				}
			}()
			c.Count("many_slow_sources_runs", 1)
		}
	case "method-not-storable":
		// a header (of the destination where the command has one, else of the source) naming aggregation method 7 or 8:
		// such a file cannot be worked on - an error, not a crash once an aggregate has to be computed
		victimFile := filepath.Join(srcBase, item, "a.wsp")
		switch cmdName {
		case "copy", "diff":
			victimFile = destFile
		case "sum-copy", "sum-diff":
			victimFile = sumDest
		}
		if cmdName != "generate" {
			if img := readFileOrNil(victimFile); len(img) > 4 {
				img[3] = byte(7 + r.Intn(2))
				ioutil.WriteFile(victimFile, img, 0644)
				expectFail = "a header names an aggregation method that cannot be stored"
				c.Count("method_not_storable_runs", 1)
			}
		}
	case "source-count-beyond-a-page":
		// a source whose archive-count field says 350-1000 (method and xFilesFactor intact, file long enough for such a
		// header): the header would not fit the first page
		if hasSource {
			p := filepath.Join(srcBase, item, "a.wsp")
			img := readFileOrNil(p)
			n := 350 + r.Intn(650)
			for len(img) < 16+12*n+4096 {
				img = append(img, make([]byte, 4096)...)
			}
			img[12], img[13], img[14], img[15] = 0, 0, byte(n>>8), byte(n)
			ioutil.WriteFile(p, img, 0644)
			expectFail = "source header is corrupt (archive count beyond a page)"
			c.Count("source_count_beyond_a_page_runs", 1)
		}
	case "glob-many-files":
		// not a fault: copy with a glob over many files and a text output (every file's listing must arrive whole)
		if cmdName == "copy" {
			for k := 0; k < 10+r.Intn(8); k++ {
				writeFixture(filepath.Join(srcBase, item, fmt.Sprintf("g%02d.wsp", k)), l, genContent(r, l, now, 0.8), now)
			}
			os.Remove(filepath.Join(srcBase, item, "b.wsp"))
			for i := range args {
				if args[i] == "-src" {
					args[i+1] = "*.wsp"
				}
			}
			globMany = true
			c.Count("glob_copies_over_many_files", 1)
		}
	case "dest-write-fails":
		// every write of page images to the destination fails with ENOSPC (injected into the command's own pwritev
		// calls: the device is full). Whether any such write was attempted is read from the injector's log.
		if writesDest {
			straceLog = filepath.Join(dir, "inject.log")
			c.Env.State["cli_wrapper"] = []string{"strace", "-f", "-o", straceLog, "-e", "trace=pwritev", "-e", "inject=pwritev:error=ENOSPC"}
			defer delete(c.Env.State, "cli_wrapper")
		}
	case "dest-missing":
		if cmdName == "diff" || cmdName == "sum-diff" {
			os.Remove(destFile)
			os.Remove(sumDest)
			expectFail = "destination missing"
		}
	}
	if hasArchive && (archSel == "n" || archSel == "-2") && expectFail == "" {
		expectFail = "archive id out of range"
	}
	switch textOut {
	case "file":
		args = append(args, "-text-out", toFile)
	case "":
		args = append(args, "-text-out", "")
	case "-":
		args = append(args, "-text-out", "-")
	}
	if textOut == "" && strings.HasPrefix(fault, "textout-") {
		expectFail = ""
	}
	_ = hasWindow
	_ = hasDest

	destBefore := readFileOrNil(destFile)
	res := runCLIAs(c, uid, args...)
	c.Count("invocations", 1)
	if uid != 0 {
		c.Count("uid_dropped_runs", 1)
	}
	if straceLog != "" {
		delete(c.Env.State, "cli_wrapper")
		failedWrites := strings.Count(string(readFileOrNil(straceLog)), "ENOSPC")
		if failedWrites > 0 {
			c.Count("destination_write_failures_injected", 1)
			if expectFail == "" {
				expectFail = "destination cannot be written (device full)"
			}
		}
	}
	sc := fw.J{"cmd": cmdName, "fault": fault, "archive": archSel, "window": window, "text_out": textOut, "expect_failure": expectFail}
	det := fw.J{"scenario": sc, "run": res.brief()}
	if cliPanicked(res) {
		c.Violationf("panic", det, "%s panicked (fault %s, archive %s, window %s)", cmdName, fault, archSel, window)
		return
	}
	if res.Exit == -100 {
		c.Inconclusive("the harness could not execute the binary: " + truncStr(res.Stderr, 200))
		return
	}
	if res.Exit < 0 || res.Exit >= 126 {
		c.Violationf("abnormal-termination", det, "%s terminated abnormally (exit %d)", cmdName, res.Exit)
		return
	}
	absent := hasArchive && (archSel == "first" || archSel == "last" || window == "future" || window == "older-than-finest" || window == "older-than-all")
	if absent {
		c.Count("absent_series_invocations", 1)
	}
	if expectFail != "" {
		okExit := res.Exit != 0
		if (cmdName == "diff" || cmdName == "sum-diff") && (fault == "source-missing" || fault == "dest-missing") && !(archSel == "n" || archSel == "-2") {
			// a missing side is a reported difference: exit 1 with an err: line (on the text output)
			outText := res.Stdout
			if textOut == "file" {
				outText = string(readFileOrNil(toFile))
			}
			_ = outText
			if res.Exit == 1 {
				c.Count("diff_missing_side_exit1", 1)
			}
		}
		if !okExit {
			key := "silent-success:" + strings.ReplaceAll(expectFail, " ", "-")
			if strings.HasPrefix(expectFail, "destination cannot be written") {
				key = "silent-success:destination-write-fails:" + cmdName
			}
			c.Violationf(key, det, "%s exited %d although %s", cmdName, res.Exit, expectFail)
			return
		}
		if expectFail == "archive id out of range" {
			c.Count("out_of_range_archive_reported", 1)
		}
		c.Count("fault_reported", 1)
		// a failing write command must not have touched an existing destination when the input was bad
		if cmdName == "copy" && (strings.HasPrefix(fault, "source-") || fault == "layout-mismatch") && destBefore != nil && fault != "layout-mismatch" {
			if !bytes.Equal(destBefore, readFileOrNil(destFile)) {
				c.Violationf("failed-copy-modified-destination", det, "copy failed (%s) but modified the destination", fault)
			}
		}
		c.Nontrivial(fw.JSON(sc))
		if c.Index < 40 {
			c.Sample(fw.J{"scenario": sc, "exit": res.Exit, "stderr": truncStr(res.Stderr, 200)})
		}
		return
	}

	// ---- no fault expected: the command must succeed (diff/sum-diff: 0 or 1) and the work must be observable
	okCodes := map[int]bool{0: true}
	if cmdName == "diff" || cmdName == "sum-diff" {
		okCodes[1] = true
	}
	if !okCodes[res.Exit] {
		c.Violationf("unexpected-failure", det, "%s exited %d on a well-formed request: %s", cmdName, res.Exit, truncStr(res.Stderr, 300))
		return
	}
	outText := res.Stdout
	if textOut == "file" {
		b, err := ioutil.ReadFile(toFile)
		if err != nil {
			c.Violationf("silent-success:text-out-file-missing", det, "%s exited %d but the -text-out file does not exist", cmdName, res.Exit)
			return
		}
		outText = string(b)
		c.Count("textout_file_checked", 1)
	}
	out := parseOutput(outText)
	if globMany {
		matched, _ := filepath.Glob(filepath.Join(srcBase, item, "*.wsp"))
		var torn []string
		for _, ln := range out.Other {
			if !strings.HasPrefix(ln, "time:") { // the glob run's own start/finish log lines
				torn = append(torn, ln)
			}
		}
		if textOut != "" && (len(out.Nows) != len(matched) || len(torn) != 0) {
			det["now_lines"], det["matched_files"] = len(out.Nows), len(matched)
			if len(torn) > 0 {
				det["first_unparsable_line"] = torn[0]
			}
			c.Violationf("silent-success:output-incomplete", det, "glob copy over %d files exited 0 but its text output has %d now: lines and %d lines that are no records", len(matched), len(out.Nows), len(torn))
			return
		}
		for _, m := range matched {
			if !fileExists(filepath.Join(destBase, item, filepath.Base(m))) {
				c.Violationf("silent-success:copy-effect", det, "glob copy exited 0 but %s was not copied", filepath.Base(m))
				return
			}
		}
		// each file's listing arrives as one block: the records under a file's now: line are that file's (for the files
		// whose destination did not exist: exactly its known points in the window)
		if textOut != "" {
			for fi, nl := range out.Nows {
				name := filepath.Base(nl.Name)
				if !strings.HasPrefix(name, "g") {
					continue // a.wsp had a destination before
				}
				end := len(out.Points)
				if fi+1 < len(out.Nows) {
					end = out.Nows[fi+1].PointsFrom
				}
				uu := until
				if window == "default" {
					uu = nl.Now
				}
				tsl, _, err := fetchArchives(filepath.Join(srcBase, item, name), sel, from, uu, nl.Now)
				if err != nil {
					continue
				}
				want := 0
				for _, ts := range tsl {
					if ts != nil {
						for _, v := range ts.Values() {
							if !math.IsNaN(float64(v)) {
								want++
							}
						}
					}
				}
				if got := end - nl.PointsFrom; got != want {
					det["file"], det["records_under_its_now_line"], det["known_points_in_window"] = name, got, want
					c.Violationf("silent-success:output-incomplete", det, "glob copy: %d records follow the now: line of %s, which has %d known points in the window (listings of different files are mixed up or incomplete)", got, name, want)
					return
				}
			}
		}
		c.Count("success_effect_checked", 1)
		c.Nontrivial(fw.JSON(sc))
		return
	}
	stable := res.T0 == res.T1
	cmdNow := res.T0
	if len(out.Nows) > 0 {
		cmdNow = out.Nows[0].Now
		stable = true
	}
	u := until
	if window == "default" {
		u = cmdNow
	}
	if textOut != "" {
		switch cmdName {
		case "view", "view-raw", "sum", "generate":
			if strings.Join(out.HeaderLines, "\n") != strings.Join(headerText(l), "\n") {
				c.Violationf("silent-success:output-missing", det, "%s exited 0 but its output does not contain the header", cmdName)
				return
			}
		}
		switch cmdName {
		case "diff", "copy", "sum", "sum-copy", "sum-diff":
			if len(out.Nows) != 1 {
				c.Violationf("silent-success:output-missing", det, "%s exited %d but its output has %d now: lines", cmdName, res.Exit, len(out.Nows))
				return
			}
		}
		if stable {
			switch cmdName {
			case "view":
				tsl, _, err := fetchArchives(filepath.Join(srcBase, item, "a.wsp"), sel, from, u, cmdNow)
				if err == nil {
					n := 0
					for _, ts := range tsl {
						if ts != nil {
							n += len(ts.Values())
						}
					}
					if len(out.Points) != n {
						c.Violationf("silent-success:output-incomplete", det, "view printed %d point lines, the window holds %d slots", len(out.Points), n)
						return
					}
				}
			case "sum":
				want, _ := expectedSum(tree, item, sel, from, u, cmdNow, c)
				n := 0
				for _, ts := range want {
					if ts != nil {
						n += len(ts.Values())
					}
				}
				if len(out.Points) != n {
					c.Violationf("silent-success:output-incomplete", det, "sum printed %d point lines, the window holds %d slots", len(out.Points), n)
					return
				}
			}
		}
	}
	switch cmdName {
	case "copy":
		s, _, err1 := fetchArchives(filepath.Join(srcBase, item, "a.wsp"), sel, from, u, cmdNow)
		d, _, err2 := fetchArchives(destFile, sel, from, u, cmdNow)
		if err1 != nil || err2 != nil {
			c.Violationf("silent-success:copy-effect", det, "after copy exit 0 a file is unreadable: %v %v", err1, err2)
			return
		}
		for ai := range s {
			if s[ai] == nil {
				continue
			}
			for j, sv := range s[ai].Values() {
				if !math.IsNaN(float64(sv)) && (d[ai] == nil || j >= len(d[ai].Values()) || !valEq(float64(sv), float64(d[ai].Values()[j]))) {
					det["archive"], det["index"] = ai, j
					c.Violationf("silent-success:copy-effect", det, "copy exited 0 but archive %d slot %d of the destination does not hold the source's value", ai, j)
					return
				}
			}
		}
	case "sum-copy":
		want, _ := expectedSum(tree, item, sel, from, u, cmdNow, c)
		d, _, err := fetchArchives(sumDest, sel, from, u, cmdNow)
		if err != nil {
			c.Violationf("silent-success:sumcopy-effect", det, "after sum-copy exit 0 the destination is unreadable: %v", err)
			return
		}
		for ai := range want {
			if want[ai] == nil {
				continue
			}
			if msg := seriesEqualNumeric(d[ai], want[ai]); msg != "" {
				det["detail"] = msg
				c.Violationf("silent-success:sumcopy-effect", det, "sum-copy exited 0 but archive %d of the destination is not the sum: %s", ai, msg)
				return
			}
		}
	}
	if fault == "empty-sources-dest-absent" && (cmdName == "copy" || cmdName == "sum-copy") {
		p := destFile
		if cmdName == "sum-copy" {
			p = sumDest
		}
		img := readFileOrNil(p)
		wantH := model.EncodeHeader(l)
		if img == nil || int64(len(img)) != l.FileSize() || !bytes.Equal(img[:len(wantH)], wantH) {
			c.Violationf("silent-success:created-destination-unusable", det, "%s exited 0 but the destination it created is missing or carries no valid header", cmdName)
			return
		}
		// and a following command can work with it
		if r2 := runCLI(c, "view", "-src-base", filepath.Dir(p), "-src", filepath.Base(p), "-text-out", ""); r2.Exit != 0 {
			c.Violationf("silent-success:created-destination-unusable", fw.J{"scenario": sc, "run": res.brief(), "view": r2.brief()}, "the destination created by %s cannot be viewed afterwards (exit %d)", cmdName, r2.Exit)
			return
		}
	}
	switch cmdName {
	case "generate":
		img := readFileOrNil(genDest)
		wantH := model.EncodeHeader(l)
		if img == nil || int64(len(img)) != l.FileSize() || !bytes.Equal(img[:len(wantH)], wantH) {
			c.Violationf("silent-success:generate-effect", det, "generate exited 0 but the file is missing or has another header")
			return
		}
	}
	c.Count("success_effect_checked", 1)
	if absent {
		c.Nontrivial(fw.JSON(sc))
	}
	if c.Index < 40 {
		c.Sample(fw.J{"scenario": sc, "exit": res.Exit})
	}
	_ = fmt.Sprint
}
