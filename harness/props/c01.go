package props

import (
	"fmt"
	"math"
	"path/filepath"

	wt "github.com/hnakamur/whispertool"

	"verifharness/fw"
	"verifharness/model"
)

// C01 Ring storage: a fetch returns the last value written to each live slot.

type c01 struct{}

func init() { fw.Register(c01{}) }

func (c01) Meta() fw.Meta {
	return fw.Meta{
		ID: "C01",
		Rule: "case = (layout, start clock, history of 12-50 ops: single/batch writes to named/best archives, clock advances incl. jumps > retention, sync, sync+close+reopen); " +
			"after EVERY op every archive is fetched through 6-9 windows (whole retention, random, sub-step, degenerate, straddling now / the retention edge, from 0, crossing the physical ring end) plus best-archive fetches and fetches with a reader clock behind the write clock (slots then hold NEWER laps); " +
			"oracle: each returned value bit-equals the value in the physical slot floor_mod((I-base)/S,N) iff that slot holds interval I, else NaN; each direct write changes exactly the addressed slot. " +
			"non-trivial = the history produced at least one stale-lap NaN read, ring-end-crossing read or page-straddling slot read; distinct by hash of (layout, clock, ops)." +
			" Also: after every write the coarser archives must hold what the downsampling oracle (C02) prescribes over these histories (clock jumps, steps back, late points into named archives); every 4th case ends with a reader whose Open had to wait for a writer holding the lock with unsynced changes - it must read what that writer synced." +
			" Every 3rd case hands each batch, as the very same slice, first to the coarsest archive of a second file and then to the file under test." +
			" Every 5th case lets batches carry points up to three intervals ahead of the clock and runs of consecutive intervals longer than the ring.",
		Assumptions: []string{
			"clock domain: maxRetention + 2*maxStep <= now and now + 2*maxStep < 2^32 (no wrap of the format's unsigned 32-bit time)",
			"raw slot state is read through the live handle (GetAllRawUnsortedPoints) and cross-checked against the harness' own parse of the file bytes at every sync/reopen",
			"layouts: 1-4 archives, steps 1..3600*60, rings of 1..1500 slots (thorough: a few files > 4 MiB)",
		},
		Obligations: []string{"stale_lap_nan_reads", "ring_end_crossing_reads", "page_straddle_slot_reads", "whole_ring_reads", "ring1", "ring2", "negative_distance_reads", "reopen_then_read", "jump_longer_than_retention", "nan_payload_roundtrip", "distance_beyond_31_bits_reads", "file_over_1024_pages", "newer_lap_nan_reads", "clock_stepped_back", "reads_after_waiting_for_writer", "coarser_archives_checked_after_write", "batches_fanned_out_to_a_second_file_first"},
	}
}

func (c01) Cases(tier string) int {
	if tier == "thorough" {
		return 400000
	}
	return 2000
}

// fetchObs is one observed fetch.
type fetchObs struct {
	arch        int
	from, until int64
	kind        string
	ts          *wt.TimeSeries
	err         error
}

type session struct {
	c    *fw.Ctx
	l    model.Layout
	path string
	db   *wt.Whisper
	now  int64
	raw  model.Raw // physical state after the last operation
	offs []int64
	// fanout, when set, receives every batch first (same slice object)
	fanout *wt.Whisper
}

func newSession(c *fw.Ctx, l model.Layout, now int64, name string) (*session, error) {
	s := &session{c: c, l: l, now: now, path: filepath.Join(c.TmpDir(), name), offs: l.Offsets()}
	db, err := createFile(s.path, l)
	if err != nil {
		return nil, err
	}
	s.db = db
	s.raw, err = rawOf(db)
	return s, err
}

func (s *session) close() {
	if s.db != nil {
		s.db.Close()
		s.db = nil
	}
}

// apply executes a write op against the library; returns the library's error.
func (s *session) apply(op Op) error {
	switch op.Kind {
	case "single":
		return s.db.UpdatePointForArchive(op.Arch, wt.Timestamp(op.Pt.T), wt.Value(math.Float64frombits(op.Pt.Bits)), u32(s.now))
	case "batch":
		pts := toPoints(op.Pts)
		if s.fanout != nil && len(pts) > 0 {
			// the caller's slice is first written to the coarsest archive of another file of the same layout (one batch
			// fanned out to two files), then - the very same slice - to this one
			s.fanout.UpdatePointsForArchive(pts, len(s.l.Archs)-1, u32(s.now))
			s.c.Count("batches_fanned_out_to_a_second_file_first", 1)
		}
		return s.db.UpdatePointsForArchive(pts, op.Arch, u32(s.now))
	}
	return nil
}

func describeLayout(l model.Layout) string { return l.String() }

func (c01) Run(c *fw.Ctx) {
	r := c.Rng
	lo := layoutOpts{}
	big := false
	switch {
	case c.Index%7 == 3:
		lo.multiPage = true
	case (c.Tier == "thorough" && c.Index%1500 == 11) || (c.Tier != "thorough" && c.Index == 11):
		// a file larger than 1024 pages: filebuffer splits vector I/O there
		lo = layoutOpts{minArch: 1, maxArch: 2, maxPoints0: 360000, multiPage: true}
		big = true
	}
	var l model.Layout
	switch c.Index % 11 {
	case 0: // directed: ring of one slot
		l = model.Layout{Archs: []model.Arch{{Step: pick32(r, stepChoices), Points: 1}}, Method: 1 + r.Intn(6), Xff: 0.5}
	case 1: // directed: ring of two slots
		l = model.Layout{Archs: []model.Arch{{Step: pick32(r, stepChoices), Points: 2}}, Method: 1 + r.Intn(6), Xff: 0.5}
	default:
		l = genLayout(r, lo)
	}
	if big {
		c.Count("file_over_1024_pages", 1)
		l.Archs[0].Points = uint32(350000 + r.Intn(10000))
		if len(l.Archs) > 1 {
			l.Archs = l.Archs[:1]
		}
	}
	now := genClock(r, l)
	farJump := c.Index%13 == 5 && !big
	if farJump {
		// directed: first writes at an early clock, then a jump of more than 2^31 seconds, so that the
		// distance between the ring's base interval and the addressed interval exceeds 31 bits
		now = l.MaxRet() + 2*l.MaxStep() + int64(r.Intn(100000))
	}
	s, err := newSession(c, l, now, "c01.wsp")
	if err != nil {
		c.Violationf("create-failed", fw.J{"layout": l, "err": err.Error()}, "Create failed for a valid layout %s: %v", l, err)
		return
	}
	defer s.close()
	if c.Index%3 == 2 && !big && len(l.Archs) >= 2 {
		if fo, err := createFile(filepath.Join(c.TmpDir(), "fanout.wsp"), l); err == nil {
			s.fanout = fo
			defer fo.Close()
		}
	}

	nops := 12 + r.Intn(39)
	if big {
		nops = 6
	}
	var ops []Op
	nanWritten := false // max/min of NaN is not specified: their coarser archives are not judged once a NaN was written
	nontrivial := false
	afterReopen := false
	for step := 0; step < nops && !c.Violated(); step++ {
		op := genOp(r, l, s.now, histOpts{hostileValues: true, futureBatch: c.Index%5 == 1})
		if farJump && step == 3 {
			d := int64(1)<<31 + int64(r.Intn(1<<20))
			if s.now+d+2*l.MaxStep()+1 < int64(1)<<32 {
				op = Op{Kind: "advance", Delta: d, Now: s.now + d}
			}
		}
		if step == 0 && op.Kind != "batch" && op.Kind != "single" {
			op = Op{Kind: "single", Arch: -1, Pt: model.PtBits{T: uint32(s.now), Bits: genValueBits(r, true)}, Now: s.now}
		}
		ops = append(ops, op)
		pre := s.raw
		afterReopen = false
		_ = nanWritten
		switch op.Kind {
		case "advance":
			for _, a := range l.Archs {
				if op.Delta > a.Ret() {
					c.Count("jump_longer_than_retention", 1)
				}
			}
			if op.Delta < 0 {
				c.Count("clock_stepped_back", 1)
			}
			s.now += op.Delta
		case "sync", "reopen":
			if err := s.db.Sync(); err != nil {
				c.Violationf("sync-error", fw.J{"err": err.Error()}, "Sync failed: %v", err)
				return
			}
			// the synced file must parse to the live state
			_, fraw, _, err := rawOfFile(s.path)
			if err != nil {
				c.Violationf("synced-file-unparsable", fw.J{"err": err.Error(), "layout": l}, "file after Sync does not parse: %v", err)
				return
			}
			for i := range fraw {
				if d := model.EqualSlots(fraw[i], pre[i]); d >= 0 {
					c.Violationf("live-vs-file", fw.J{"layout": l, "ops": ops, "archive": i, "slot": d, "file": fraw[i][d], "live": pre[i][d]},
						"after Sync archive %d slot %d on disk %v differs from the live handle's %v", i, d, fraw[i][d], pre[i][d])
					return
				}
			}
			c.Count("sync_file_crosschecks", 1)
			if op.Kind == "reopen" {
				s.db.Close()
				s.db, err = wt.Open(s.path)
				if err != nil {
					c.Violationf("reopen-failed", fw.J{"layout": l, "err": err.Error()}, "Open of a synced file failed: %v", err)
					s.db = nil
					return
				}
				afterReopen = true
			}
		case "single", "batch":
			err := s.apply(op)
			if err != nil {
				c.Violationf("write-error", fw.J{"layout": l, "ops": ops, "now": s.now, "err": err.Error()}, "in-range write returned an error: %v", err)
				return
			}
		}

		// ---- reads first (cold page cache right after a reopen), then the raw state
		var obs []fetchObs
		for ai, a := range l.Archs {
			nw := 6 + r.Intn(4)
			if big {
				nw = 4
			}
			for _, w := range genWindows(r, a, pre[ai][0].T, s.now, nw) {
				ts, err := s.db.FetchFromArchive(ai, u32(w.From), u32(w.Until), u32(s.now))
				obs = append(obs, fetchObs{ai, w.From, w.Until, w.Kind, ts, err})
			}
		}
		// reads with a clock BEHIND the write clock (a reader on another host): slots may hold newer intervals
		for j := 0; j < 2 && !big; j++ {
			ai := r.Intn(len(l.Archs))
			a := l.Archs[ai]
			back := []int64{int64(a.Step), a.Ret() / 2, a.Ret(), a.Ret() + int64(a.Step)*int64(1+r.Intn(3))}[r.Intn(4)]
			rnow := s.now - back
			if rnow < l.MaxRet()+2*l.MaxStep() {
				continue
			}
			f := rnow - r.Int63n(a.Ret()+1)
			u := f + r.Int63n(rnow-f+1)
			ts, err := s.db.FetchFromArchive(ai, u32(f), u32(u), u32(rnow))
			obs = append(obs, fetchObs{ai, f, u, "reader-clock-behind", ts, err})
		}
		// best-archive fetches
		for j := 0; j < 2; j++ {
			f := s.now - r.Int63n(l.MaxRet()+1)
			u := f + r.Int63n(s.now-f+1)
			ts, err := s.db.FetchFromArchive(wt.ArchiveIDBest, u32(f), u32(u), u32(s.now))
			obs = append(obs, fetchObs{-1, f, u, "best", ts, err})
		}
		post, err := rawOf(s.db)
		if err != nil {
			c.Violationf("raw-read-error", fw.J{"err": err.Error()}, "GetAllRawUnsortedPoints failed: %v", err)
			return
		}
		s.raw = post

		// ---- the coarser archives after a write: the aggregates the downsampling rule prescribes (C02's oracle; here over
		// C01's histories: clock jumps and steps back, reopens, late points into named archives)
		if op.Kind == "single" || op.Kind == "batch" {
			vals := op.Pts
			if op.Kind == "single" {
				vals = []model.PtBits{op.Pt}
			}
			for _, p := range vals {
				if v := math.Float64frombits(p.Bits); v != v {
					nanWritten = true
				}
			}
			if !(nanWritten && (l.Method == 4 || l.Method == 5)) {
				if dc, ai, d, want, got, found := propagationMismatch(l, pre, post, op, s.now); found {
					c.Violationf("coarser-archive-not-the-aggregate", fw.J{"layout": l, "ops": ops, "now": s.now, "archive": ai, "slot": d, "want": want, "got": got, "before": pre[ai][d]},
						"after %s (archive %d) archive %d slot %d holds %v, the aggregate of the finer archive demands %v (was %v)", op.Kind, op.Arch, ai, d, got, want, pre[ai][d])
				} else if !dc {
					c.Count("coarser_archives_checked_after_write", 1)
				}
			}
		}
		// ---- write-side oracle
		switch op.Kind {
		case "advance", "sync", "reopen":
			for i := range post {
				if d := model.EqualSlots(pre[i], post[i]); d >= 0 {
					c.Violationf("state-changed-without-write", fw.J{"layout": l, "ops": ops, "archive": i, "slot": d},
						"%s changed archive %d slot %d: %v -> %v", op.Kind, i, d, pre[i][d], post[i][d])
				}
			}
		case "single":
			target := op.Arch
			if target < 0 {
				target = model.BestArchive(l, int64(op.Pt.T), s.now)
			}
			exp := append([]model.Slot(nil), pre[target]...)
			model.RingWrite(exp, l.Archs[target], model.AlignDown(int64(op.Pt.T), l.Archs[target].Step), op.Pt.Bits)
			if d := model.EqualSlots(exp, post[target]); d >= 0 {
				c.Violationf("single-write-placement", fw.J{"layout": l, "ops": ops, "now": s.now, "archive": target, "slot": d, "want": exp[d], "got": post[target][d]},
					"single write t=%d to archive %d: slot %d holds %v, ring rule demands %v", op.Pt.T, target, d, post[target][d], exp[d])
			}
			for i := 0; i < target; i++ {
				if d := model.EqualSlots(pre[i], post[i]); d >= 0 {
					c.Violationf("finer-archive-touched", fw.J{"layout": l, "ops": ops, "archive": i, "slot": d}, "write to archive %d changed finer archive %d slot %d", target, i, d)
				}
			}
			c.Count("direct_single_writes", 1)
		case "batch":
			routed := model.RouteBatch(l, op.Pts, op.Arch, s.now)
			first := -1
			for i := range routed {
				if len(routed[i]) > 0 {
					first = i
					break
				}
			}
			for i := range l.Archs {
				if len(routed[i]) == 0 {
					if first < 0 || i < first {
						if d := model.EqualSlots(pre[i], post[i]); d >= 0 {
							c.Violationf("untargeted-archive-touched", fw.J{"layout": l, "ops": ops, "now": s.now, "archive": i, "slot": d},
								"batch changed archive %d slot %d although no point was routed to it or to a finer archive", i, d)
						}
					}
					continue
				}
				exp := append([]model.Slot(nil), pre[i]...)
				if i != first {
					// coarser archive of a best-batch: propagation ran before its direct writes; start from the actual
					// post state and require the direct writes to be present
					exp = append([]model.Slot(nil), post[i]...)
					// a never-written ring gets its base from the first direct or propagated write; use the actual one
				}
				model.ApplyDirect(exp, l.Archs[i], routed[i])
				if d := model.EqualSlots(exp, post[i]); d >= 0 {
					c.Violationf("batch-write-placement", fw.J{"layout": l, "ops": ops, "now": s.now, "archive": i, "slot": d, "want": exp[d], "got": post[i][d]},
						"batch to archive %d (requested %d): slot %d holds %v, ring rule demands %v", i, op.Arch, d, post[i][d], exp[d])
				}
				c.Count("direct_batch_points", int64(len(routed[i])))
			}
		}

		// ---- read-side oracle against the actual physical state
		for _, o := range obs {
			if o.err != nil {
				c.Violationf("fetch-error", fw.J{"layout": l, "ops": ops, "now": s.now, "archive": o.arch, "from": o.from, "until": o.until, "err": o.err.Error()}, "fetch failed: %v", o.err)
				continue
			}
			if o.ts == nil {
				continue
			}
			ai := o.arch
			if ai < 0 {
				ai = -1
				for i, a := range l.Archs {
					if int64(a.Step) == int64(o.ts.Step()) {
						ai = i
					}
				}
				if ai < 0 {
					c.Violationf("best-fetch-unknown-step", fw.J{"layout": l, "step": o.ts.Step()}, "best fetch returned step %d of no archive", o.ts.Step())
					continue
				}
			}
			a := l.Archs[ai]
			ring := post[ai]
			vals := o.ts.Values()
			from := int64(o.ts.FromTime())
			step := int64(o.ts.Step())
			c.Count("fetched_windows", 1)
			c.Count("fetched_slots", int64(len(vals)))
			if int64(len(vals)) == int64(a.Points) {
				c.Count("whole_ring_reads", 1)
			}
			if a.Points == 1 {
				c.Count("ring1", 1)
			}
			if a.Points == 2 {
				c.Count("ring2", 1)
			}
			if afterReopen {
				c.Count("reopen_then_read", 1)
			}
			prevIdx := -1
			for k, v := range vals {
				iv := from + int64(k)*step
				got := valueBits(v)
				idx := model.SlotIndex(ring[0].T, iv, a)
				if ring[0].T != 0 {
					if iv < int64(ring[0].T) {
						c.Count("negative_distance_reads", 1)
					}
					if iv-int64(ring[0].T) >= 1<<31 {
						c.Count("distance_beyond_31_bits_reads", 1)
					}
					if prevIdx >= 0 && idx < prevIdx {
						c.Count("ring_end_crossing_reads", 1)
						nontrivial = true
					}
					prevIdx = idx
					if slotStraddlesPage(s.offs[ai], idx) {
						c.Count("page_straddle_slot_reads", 1)
						nontrivial = true
					}
				}
				want, ok := model.RingLookup(ring, a, iv)
				if ok {
					if got != want {
						c.Violationf("fetch-wrong-value", fw.J{"layout": l, "ops": ops, "now": s.now, "archive": ai, "from": o.from, "until": o.until, "window": o.kind, "interval": iv, "slot": idx, "want_bits": want, "got_bits": got, "base": ring[0].T},
							"archive %d window [%d,%d] (%s): interval %d read %x, slot %d holds %x for exactly that interval", ai, o.from, o.until, o.kind, iv, got, idx, want)
						break
					}
					if isNaNBits(want) && want != model.NaNBits {
						c.Count("nan_payload_roundtrip", 1)
					}
					c.Count("live_value_reads", 1)
				} else {
					if !isNaNBits(got) {
						stored := model.Slot{}
						if ring[0].T != 0 {
							stored = ring[idx]
						}
						c.Violationf("fetch-stale-or-foreign-value", fw.J{"layout": l, "ops": ops, "now": s.now, "archive": ai, "from": o.from, "until": o.until, "window": o.kind, "interval": iv, "slot": idx, "slot_holds": stored, "got_bits": got, "base": ring[0].T},
							"archive %d window [%d,%d] (%s): interval %d read value %v but its slot %d holds interval %d (must read NaN)", ai, o.from, o.until, o.kind, iv, math.Float64frombits(got), idx, stored.T)
						break
					}
					if ring[0].T != 0 && ring[idx].T != 0 {
						c.Count("stale_lap_nan_reads", 1)
						if int64(ring[idx].T) > iv {
							c.Count("newer_lap_nan_reads", 1)
						}
						nontrivial = true
					} else {
						c.Count("empty_slot_nan_reads", 1)
					}
				}
			}
		}
	}
	// a reader whose Open had to wait for a writer's lock reads what that writer synced, not what the file held
	// when the Open began
	if c.Index%4 == 1 && l.FileSize() < 8<<20 && !c.Violated() && s.db != nil {
		if err := s.db.Sync(); err == nil {
			s.close()
			diff, waited := waitingOpener(s.path, l, s.now, r)
			c.Count("reads_after_waiting_for_writer", 1)
			if waited {
				c.Count("reader_open_waited_for_writer", 1)
			}
			if diff != "" {
				c.Violationf("fetch-stale-after-waiting-open", fw.J{"layout": l, "now": s.now, "what": diff}, "a handle that waited for the writer's lock does not read the writer's last values: %s", diff)
			}
		}
	}
	c.Count("ops", int64(len(ops)))
	if nontrivial {
		c.Nontrivial(l.String(), now, fw.JSON(ops))
	}
	if c.Index < 64 {
		c.Sample(fw.J{"layout": l.String(), "start_clock": now, "ops": summarizeOps(ops, 6)})
	}
}

func summarizeOps(ops []Op, n int) []string {
	var out []string
	for i, op := range ops {
		if i >= n {
			out = append(out, fmt.Sprintf("... %d more", len(ops)-n))
			break
		}
		switch op.Kind {
		case "single":
			out = append(out, fmt.Sprintf("single arch=%d t=%d v=%v @%d", op.Arch, op.Pt.T, math.Float64frombits(op.Pt.Bits), op.Now))
		case "batch":
			out = append(out, fmt.Sprintf("batch arch=%d n=%d @%d", op.Arch, len(op.Pts), op.Now))
		case "advance":
			out = append(out, fmt.Sprintf("advance +%d -> %d", op.Delta, op.Now))
		default:
			out = append(out, op.Kind)
		}
	}
	return out
}
