package props

import (
	"fmt"
	"math"
	"os"
	"path/filepath"
	"time"

	wt "github.com/hnakamur/whispertool"
	wcmd "github.com/hnakamur/whispertool/cmd"

	"verifharness/fw"
	"verifharness/model"
)

// C04 Fetch window contract: shape depends only on layout, window and clock.

type c04 struct{}

func init() { fw.Register(c04{}) }

func (c04) Meta() fw.Meta {
	return fw.Meta{
		ID: "C04",
		Rule: "case = (layout, clock); three files of that layout (never written / every archive written / a random subset of archives written) are each fetched with every archive id in {-2,-1(best),0..n-1,n,n+7} " +
			"x ~60 windows (all combinations of from/until in {before the retention edge, edge-1, edge, edge+1, inside, now-1, now, now+1, future}, from=0, from>until, degenerate, sub-step, aligned/unaligned); " +
			"oracle: closed-form shape (error / absent / from, until, step, count, i-th time) computed from layout, id, window and clock only; the three files must give the same shape; the whole product is repeated with a reader clock BEHIND the write clock. " +
			"non-trivial = case observed an absent result, a degenerate-window extension and a clamped window; distinct by (layout, clock)." +
			" Also: fetches with the default clock (now=0) while the settable clock TICKS on every reading - the result must be the contract shape at one of the instants handed out; every 6th case repeats 24 fetches through the real server (single scheduler thread, socket writes delayed by 20 ms via strace, six other clients reading same-layout files)." +
			" The remote leg runs with the process-local time zone set to UTC, +9 h, -5 h or +5:30." +
			" In the reader-clock-behind pass every fetched value is compared with what the ring holds for exactly that instant.",
		Assumptions: []string{
			"clock domain: maxRetention + 2*maxStep <= now and now + 2*maxStep < 2^32",
			"the Fetch() convenience wrapper is driven through the library's settable clock whispertool.Now (one worker process = one clock)",
		},
		Obligations: []string{"shape_checks", "absent_future", "absent_too_old", "error_from_after_until", "error_bad_id", "degenerate_extended", "clamped_from", "clamped_until", "best_selected_coarser", "never_written_checked", "written_checked", "wrapper_fetch_checked", "reader_clock_behind_passes", "ticking_default_clock_fetches", "remote_fetches", "concurrent_noise_requests_served", "remote_fetches_in_a_non_utc_zone", "values_checked_against_their_instants"},
	}
}

func (c04) Cases(tier string) int {
	if tier == "thorough" {
		return 600000
	}
	return 1500
}

type shapeObs struct {
	Err    bool    `json:"err"`
	Absent bool    `json:"absent"`
	From   int64   `json:"from"`
	Until  int64   `json:"until"`
	Step   int64   `json:"step"`
	N      int64   `json:"n"`
	ErrMsg string  `json:"errmsg,omitempty"`
	bad    string  // inconsistency inside the returned object
	times  []int64 // Points()[i].Time
}

func observeShape(ts *wt.TimeSeries, err error) shapeObs {
	if err != nil {
		return shapeObs{Err: true, ErrMsg: err.Error()}
	}
	if ts == nil {
		return shapeObs{Absent: true}
	}
	o := shapeObs{From: int64(ts.FromTime()), Until: int64(ts.UntilTime()), Step: int64(ts.Step()), N: int64(len(ts.Values()))}
	pts := ts.Points()
	if len(pts) != len(ts.Values()) {
		o.bad = fmt.Sprintf("Points() has %d entries, Values() %d", len(pts), len(ts.Values()))
	}
	for i, p := range pts {
		if int64(p.Time) != o.From+int64(i)*o.Step {
			o.bad = fmt.Sprintf("point %d has time %d, want from+i*step=%d", i, p.Time, o.From+int64(i)*o.Step)
			break
		}
	}
	return o
}

func shapeEqual(o shapeObs, s model.Shape) bool {
	if s.Err || o.Err {
		return s.Err == o.Err
	}
	if s.Absent || o.Absent {
		return s.Absent == o.Absent
	}
	return o.From == s.From && o.Until == s.Until && o.Step == s.Step && o.N == s.N
}

func (c04) Run(c *fw.Ctx) {
	r := c.Rng
	l := genLayout(r, layoutOpts{maxPoints0: 400})
	now := genClock(r, l)
	k := len(l.Archs)

	type file struct {
		name string
		db   *wt.Whisper
	}
	var files []file
	defer func() {
		for _, f := range files {
			f.db.Close()
		}
	}()
	for fi, name := range []string{"never-written", "all-written", "some-written"} {
		db, err := createFile(joinTmp(c.TmpDir(), fmt.Sprintf("c04-%d.wsp", fi)), l)
		if err != nil {
			c.Violationf("create-failed", fw.J{"layout": l, "err": err.Error()}, "Create failed: %v", err)
			return
		}
		files = append(files, file{name, db})
		for ai, a := range l.Archs {
			if fi == 0 || (fi == 2 && r.Intn(2) == 0) {
				continue
			}
			n := 1 + r.Intn(5)
			for j := 0; j < n; j++ {
				t := inRangeTime(r, now, a.Ret())
				if err := db.UpdatePointForArchive(ai, u32(t), wt.Value(float64(j)+0.5), u32(now)); err != nil {
					c.Violationf("write-error", fw.J{"layout": l, "err": err.Error()}, "write failed: %v", err)
					return
				}
			}
		}
	}

	ids := []int{-2, -1}
	for i := 0; i < k; i++ {
		ids = append(ids, i)
	}
	ids = append(ids, k, k+7)

	sawAbsent, sawDegen, sawClamp := false, false, false
	// the whole id x window product is run twice: at the clock of the writes, and at an EARLIER clock (a reader
	// whose clock is behind the writer's: slots then hold intervals "from the future"); the shape must not care
	writeClock := now
	rawByFile := map[int]model.Raw{}
	for pass := 0; pass < 2; pass++ {
		if pass == 1 {
			a := l.Archs[r.Intn(k)]
			back := []int64{1, int64(a.Step), a.Ret() / 2, a.Ret() + int64(a.Step)*int64(1+r.Intn(3))}[r.Intn(4)]
			if writeClock-back < l.MaxRet()+2*l.MaxStep() {
				break
			}
			now = writeClock - back
			c.Count("reader_clock_behind_passes", 1)
		}
		for _, id := range ids {
			// window endpoints are built relative to the archive the id denotes (coarsest for best/out of range)
			ref := l.Archs[k-1]
			if id >= 0 && id < k {
				ref = l.Archs[id]
			} else if id == -1 {
				ref = l.Archs[r.Intn(k)]
			}
			S := int64(ref.Step)
			edge := now - ref.Ret()
			inside := func() int64 { return now - r.Int63n(ref.Ret()+1) }
			pts := []int64{edge - 3*S - r.Int63n(S+1), edge - 1, edge, edge + 1, inside(), inside(), now - 1, now, now + 1, now + 2*S + r.Int63n(S+1), 0}
			var ws [][2]int64
			for _, f := range pts {
				for _, u := range pts {
					ws = append(ws, [2]int64{f, u})
				}
			}
			// degenerate / sub-step / aligned / unaligned specials
			for j := 0; j < 8; j++ {
				f := inside()
				ws = append(ws, [2]int64{f, f})
				ws = append(ws, [2]int64{f, minI64(f+r.Int63n(S), 1<<32-1)})
				al := model.AlignDown(f, ref.Step)
				ws = append(ws, [2]int64{al, al}, [2]int64{al, al + S}, [2]int64{al - 1, al}, [2]int64{al + 1, al + S - 1})
			}
			// keep a deterministic subset to bound cost
			r.Shuffle(len(ws), func(i, j int) { ws[i], ws[j] = ws[j], ws[i] })
			if len(ws) > 70 {
				ws = ws[:70]
			}
			for _, w := range ws {
				from, until := w[0], w[1]
				if from < 0 {
					from = 0
				}
				if until < 0 {
					until = 0
				}
				if from > math.MaxUint32 {
					from = math.MaxUint32
				}
				if until > math.MaxUint32 {
					until = math.MaxUint32
				}
				want := model.FetchShape(l, id, from, until, now)
				var first shapeObs
				for fi, f := range files {
					ts, err := f.db.FetchFromArchive(id, u32(from), u32(until), u32(now))
					o := observeShape(ts, err)
					c.Count("shape_checks", 1)
					if fi == 0 {
						c.Count("never_written_checked", 1)
						first = o
					} else {
						c.Count("written_checked", 1)
					}
					detail := fw.J{"layout": l, "now": now, "id": id, "from": from, "until": until, "file": f.name, "want": want, "got": o}
					if o.bad != "" {
						c.Violationf("series-internally-inconsistent", detail, "file %s id %d window [%d,%d] now %d: %s", f.name, id, from, until, now, o.bad)
					}
					if !shapeEqual(o, want) {
						key := "shape-mismatch"
						switch {
						case want.Err != o.Err:
							key = "shape-error-mismatch"
						case want.Absent != o.Absent:
							key = "shape-absent-mismatch"
						}
						c.Violationf(key, detail, "file %s id %d window [%d,%d] now %d: got %s, contract demands %s", f.name, id, from, until, now, fw.JSON(o), fw.JSON(want))
					}
					// "the i-th [value] belonging to instant from+i*step": with the reader's clock behind the writer's, a slot
					// may hold a later lap of its interval - the value reported for an instant is the one stored FOR that instant
					if pass == 1 && fi > 0 && ts != nil && err == nil && want.Arch >= 0 && want.Arch < k && int(o.N) == len(ts.Values()) && o.N <= 2000 {
						if rawByFile[fi] == nil {
							rawByFile[fi], _ = rawOf(f.db)
						}
						if rw := rawByFile[fi]; rw != nil {
							a := l.Archs[want.Arch]
							for i, v := range ts.Values() {
								iv := o.From + int64(i)*o.Step
								bits, ok := model.RingLookup(rw[want.Arch], a, iv)
								got := float64(v)
								if (ok && math.Float64bits(got) != bits) || (!ok && got == got) {
									c.Violationf("value-of-another-instant", fw.J{"layout": l, "now": now, "write_clock": writeClock, "id": id, "from": from, "until": until, "file": f.name, "index": i, "instant": iv, "got": got, "stored_for_that_instant": ok},
										"file %s id %d window [%d,%d] reader clock %d (writer clock %d): value %d (instant %d) is %v, but the archive holds %s for that instant", f.name, id, from, until, now, writeClock, i, iv, got, map[bool]string{true: "another value", false: "nothing"}[ok])
									return
								}
							}
							c.Count("values_checked_against_their_instants", int64(len(ts.Values())))
						}
					}
					if fi > 0 && (o.Err != first.Err || o.Absent != first.Absent || o.From != first.From || o.Until != first.Until || o.Step != first.Step || o.N != first.N) {
						c.Violationf("shape-depends-on-content", fw.J{"layout": l, "now": now, "id": id, "from": from, "until": until, "never_written": first, "written": o, "file": f.name},
							"id %d window [%d,%d] now %d: never-written file gives %s, %s file gives %s", id, from, until, now, fw.JSON(first), f.name, fw.JSON(o))
					}
					if c.Violated() {
						return
					}
				}
				// coverage bookkeeping from the oracle's point of view
				switch {
				case want.Err && from > until:
					c.Count("error_from_after_until", 1)
				case want.Err:
					c.Count("error_bad_id", 1)
				case want.Absent && from > now:
					c.Count("absent_future", 1)
					sawAbsent = true
				case want.Absent:
					c.Count("absent_too_old", 1)
					sawAbsent = true
				default:
					a := l.Archs[want.Arch]
					cf, cu := from, until
					if from < now-a.Ret() {
						c.Count("clamped_from", 1)
						cf = now - a.Ret()
						sawClamp = true
					}
					if until > now {
						c.Count("clamped_until", 1)
						cu = now
						sawClamp = true
					}
					if model.AlignNext(cf, a.Step) == model.AlignNext(cu, a.Step) {
						c.Count("degenerate_extended", 1)
						sawDegen = true
					}
					if id == -1 && want.Arch > 0 {
						c.Count("best_selected_coarser", 1)
					}
				}
			}
		}

	}
	now = writeClock
	// the Fetch(from, until) wrapper reads the settable clock
	oldNow := wt.Now
	wt.Now = func() time.Time { return time.Unix(now, 0) }
	for j := 0; j < 10; j++ {
		from := now - r.Int63n(l.MaxRet()+int64(l.MaxStep())+1)
		if from < 0 {
			from = 0
		}
		until := from + r.Int63n(now-from+int64(l.MaxStep()))
		want := model.FetchShape(l, -1, from, until, now)
		for _, f := range files {
			ts, err := f.db.Fetch(u32(from), u32(until))
			o := observeShape(ts, err)
			c.Count("wrapper_fetch_checked", 1)
			if !shapeEqual(o, want) {
				c.Violationf("wrapper-shape-mismatch", fw.J{"layout": l, "now": now, "from": from, "until": until, "file": f.name, "want": want, "got": o},
					"Fetch(%d,%d) at clock %d on %s file: got %s, contract demands %s", from, until, now, f.name, fw.JSON(o), fw.JSON(want))
			}
		}
	}
	// default clock (now == 0) while the clock TICKS: every reading of the clock returns the next second. A fetch is
	// one request at one instant: its result must be the contract's shape at ONE of the instants it was handed
	// (windows sit on retention edges, where selection and clamping at different instants give a shape of neither).
	tick := int64(0)
	var handed []int64
	wt.Now = func() time.Time {
		t := now + tick
		tick++
		handed = append(handed, t)
		return time.Unix(t, 0)
	}
	for j := 0; j < 24 && !c.Violated(); j++ {
		if now+400+2*l.MaxStep() >= 1<<32 {
			break // the ticking instants would leave the clock domain
		}
		ai := r.Intn(k)
		a := l.Archs[ai]
		id := -1
		if j%3 == 2 {
			id = ai
		}
		from := now + tick + int64(r.Intn(3)) - a.Ret() // the retention edge of archive ai at one of the next instants
		if r.Intn(4) == 0 {
			from = now + tick - r.Int63n(l.MaxRet()+1)
		}
		if from < 0 {
			from = 0
		}
		until := from + 1 + r.Int63n(a.Ret())
		if r.Intn(3) == 0 {
			until = now + tick + int64(r.Intn(3))
		}
		if until < from {
			until = from
		}
		if until > math.MaxUint32 {
			until = math.MaxUint32
		}
		for _, f := range files {
			handed = handed[:0]
			var ts *wt.TimeSeries
			var err error
			if id == -1 && j%2 == 0 {
				ts, err = f.db.Fetch(u32(from), u32(until))
			} else {
				ts, err = f.db.FetchFromArchive(id, u32(from), u32(until), 0)
			}
			o := observeShape(ts, err)
			c.Count("ticking_default_clock_fetches", 1)
			cands := append([]int64(nil), handed...)
			if len(cands) == 0 {
				cands = []int64{now}
			}
			if len(cands) > 1 {
				c.Count("ticking_clock_read_more_than_once", 1)
			}
			ok := false
			var wants []model.Shape
			for _, cn := range cands {
				w := model.FetchShape(l, id, from, until, cn)
				wants = append(wants, w)
				if shapeEqual(o, w) {
					ok = true
				}
			}
			if !ok {
				c.Violationf("default-clock-shape-of-no-instant", fw.J{"layout": l, "id": id, "from": from, "until": until, "file": f.name, "instants_handed_out": cands, "contract_at_each": wants, "got": o},
					"fetch with the default clock (id %d, window [%d,%d]) was handed the instants %v and returned %s: the contract's shape at none of them", id, from, until, cands, fw.JSON(o))
			}
		}
	}
	wt.Now = oldNow

	// the same contract for fetches that go through the server (the request names its clock): every 6th case, against
	// the single-threaded server with delayed socket writes while other clients read files of the same layout
	if c.Index%6 == 0 && (c.Index < 6000 || c.Index%600 == 0) && !c.Violated() {
		c04Remote(c, l, now) // (thorough: the first 1000 such cases, then every 600th case - each costs about a second)
	}

	if sawAbsent && sawDegen && sawClamp {
		c.Nontrivial(l.String(), now)
	}
	if c.Index < 64 {
		c.Sample(fw.J{"layout": l.String(), "clock": now, "ids": ids, "windows_per_id": 70, "files": []string{"never-written", "all-written", "some-written"}})
	}
}

func c04Remote(c *fw.Ctx, l model.Layout, now int64) {
	r := c.Rng
	u, served, ok := workerServer1P(c)
	if !ok {
		return
	}
	k := len(l.Archs)
	dirName := fmt.Sprintf("c04-%d-%d", c.Seed, c.Index)
	mustMkdir(filepath.Join(served, dirName))
	defer os.RemoveAll(filepath.Join(served, dirName))
	rels := []string{filepath.Join(dirName, "a.wsp"), filepath.Join(dirName, "b.wsp"), filepath.Join(dirName, "never.wsp")}
	for fi, rel := range rels {
		db, err := createFile(filepath.Join(served, rel), l)
		if err != nil {
			panic(err)
		}
		if fi < 2 {
			for ai, a := range l.Archs {
				for j := 0; j < 6; j++ {
					db.UpdatePointForArchive(ai, u32(inRangeTime(r, now, a.Ret())), wt.Value(float64(fi*100+j)+0.25), u32(now))
				}
			}
		}
		if err := db.Sync(); err != nil {
			panic(err)
		}
		db.Close()
	}
	if server1PDelayed(c) {
		c.Count("server_socket_writes_delayed", 1)
	}
	// the client's local time zone is an environment condition: what it sends and gets must not depend on it
	zones := []*time.Location{time.UTC, time.FixedZone("JST", 9*3600), time.FixedZone("EST", -5*3600), time.FixedZone("IST", 5*3600+1800)}
	oldLocal := time.Local
	time.Local = zones[(c.Index/6)%len(zones)]
	defer func() { time.Local = oldLocal }()
	if time.Local != time.UTC {
		c.Count("remote_fetches_in_a_non_utc_zone", 1)
	}
	withServerNoise(c, u, rels[:2], func() {
		for j := 0; j < 24 && !c.Violated(); j++ {
			rel := rels[r.Intn(len(rels))]
			sel := r.Intn(k+2) - 1 // -1 (every archive) .. k (out of range)
			a := l.Archs[r.Intn(k)]
			edge := now - a.Ret()
			pts := []int64{edge - int64(a.Step), edge, edge + 1, now - r.Int63n(a.Ret()+1), now - r.Int63n(a.Ret()+1), now - 1, now, now + 1 + r.Int63n(int64(a.Step)+1), 0}
			from, until := pts[r.Intn(len(pts))], pts[r.Intn(len(pts))]
			if from < 0 {
				from = 0
			}
			if until < 0 {
				until = 0
			}
			_, tl, err := wcmd.VerifReadWhisperFile(u, rel, sel, u32(from), u32(until), u32(now))
			c.Count("remote_fetches", 1)
			detail := fw.J{"layout": l, "file": rel, "archive": sel, "from": from, "until": until, "now": now}
			wantErr := from > until || sel >= k
			if (err != nil) != wantErr {
				detail["err"] = fmt.Sprint(err)
				c.Violationf("remote-shape-error-mismatch", detail, "fetch through the server (archive %d, window [%d,%d], clock %d): error=%v, the contract demands error=%v", sel, from, until, now, err, wantErr)
				return
			}
			if err != nil {
				continue
			}
			if len(tl) != k {
				c.Violationf("remote-shape-mismatch", detail, "fetch through the server returned %d series for %d archives", len(tl), k)
				return
			}
			for ai := range l.Archs {
				if sel >= 0 && ai != sel {
					continue
				}
				want := model.FetchShape(l, ai, from, until, now)
				o := observeShape(tl[ai], nil)
				if o.bad != "" || !shapeEqual(o, want) {
					detail["archive_index"] = ai
					detail["want"] = want
					detail["got"] = o
					c.Violationf("remote-shape-mismatch", detail, "fetch through the server, archive %d window [%d,%d] clock %d: got %s, the contract demands %s %s", ai, from, until, now, fw.JSON(o), fw.JSON(want), o.bad)
					return
				}
			}
		}
	})
}
