package props

import (
	"bytes"
	"fmt"
	"math"
	"math/rand"
	"os"
	"path/filepath"
	"sort"
	"strconv"
	"sync"
	"time"

	wt "github.com/hnakamur/whispertool"

	"verifharness/fw"
	"verifharness/model"
)

// C08 copy makes the destination equal to the source over the requested window.

type c08 struct{}

func init() { fw.Register(c08{}) }

func (c08) Meta() fw.Meta {
	return fw.Meta{
		ID: "C08",
		Rule: "case = one scenario run through the real binary: source tree of 1-5 files (1-3 archives, sparse contents with NaN holes, coarser archives that are NOT the aggregate of the finer ones) and a destination in one of the states {absent, never written, exact copy, copy with finer slots perturbed while coarser archives already match, copy perturbed everywhere, unrelated contents}; " +
			"window in {default, narrow, in the past, degenerate, beyond the finest retention}; -archive all or one id; -copy-nan on/off; single-file or glob mode (with a symlinked source file and non-canonical spellings of the base directory); also layout mismatch and an empty source with an absent destination. " +
			"oracle (library fetches at the clock the command printed in its now: line): exit 0 => for every selected archive and slot of the window src has a value => dest equals it (and src NaN => dest NaN with -copy-nan); source bytes unchanged; absent destination created with exactly the requested header even when nothing is copied; " +
			"layout mismatch => exit != 0 and destination byte-identical; repeating the command leaves the destination bytes unchanged; with -copy-nan a following diff over the same window/archives exits 0; glob: every matched relative path exists under the destination. " +
			"non-trivial = scenario in which at least one slot was actually copied and at least one already-equal slot had to survive; distinct by scenario parameters." +
			" Perturbations include one-ulp neighbours; in glob mode with the default window the first source is locked for 1.2-1.8 s while a fresh point is written to the last source." +
			" When the destination is absent the requested method/xFilesFactor differ from the source header's in every 2nd case; every 10th glob case copies from a server whose file listing breaks off half way (exit 0 only if every matched file was copied)." +
			" With an explicit window every 2nd case sets the sources' modification times two days back.",
		Assumptions: []string{
			"CLI commands read the wall clock; the oracle uses the now: value the command printed (per file), so the comparison is exact at that instant",
			"value equality is numeric (+0 == -0), as the command's own difference test; NaN equals NaN",
		},
		Obligations: []string{"slow_first_file_runs", "sources_with_an_old_modification_time", "glob_copies_with_a_listing_that_breaks_off", "requested_header_differs_from_source_header", "copies_ok", "slots_compared", "slots_copied", "coarser_matched_finer_differed", "dest_absent_created", "dest_absent_nothing_to_copy", "narrow_window", "window_beyond_finest_retention", "single_archive_selection", "glob_mode_3plus_files", "copy_nan_mode", "layout_mismatch_rejected", "repeat_idempotent", "diff_after_copy_clean", "source_unchanged_checks", "symlinked_source_in_glob", "unclean_base_spelling", "glob_failing_file_reported"},
		Workers:     12,
	}
}

func (c08) Cases(tier string) int {
	if tier == "thorough" {
		return 40000
	}
	return 520
}

type copyScenario struct {
	L         model.Layout
	Files     []string
	DestState string
	Window    string
	From      int64
	Until     int64 // 0 = default
	Archive   int
	CopyNaN   bool
	Glob      bool
}

func perturb(r *rand.Rand, c slotContent, archs []int, n int) {
	for _, ai := range archs {
		var keys []int64
		for k := range c[ai] {
			keys = append(keys, k)
		}
		if len(keys) == 0 {
			continue
		}
		for i := 0; i < n; i++ {
			k := keys[r.Intn(len(keys))]
			switch r.Intn(4) {
			case 3: // the closest other value: "almost equal" is not equal
				c[ai][k] = math.Nextafter(c[ai][k], math.Inf(1-2*r.Intn(2)))
			case 0:
				c[ai][k] = c[ai][k] + 1
			case 1:
				delete(c[ai], k)
			default:
				c[ai][k] = float64(r.Intn(100))
			}
		}
	}
}

func (c08) Run(c *fw.Ctx) {
	r := c.Rng
	dir := c.TmpDir()
	srcBase, destBase := filepath.Join(dir, "src"), filepath.Join(dir, "dest")
	mustMkdir(srcBase)
	mustMkdir(destBase)
	l := cliLayout(r)
	sc := copyScenario{L: l, Archive: -1}
	if c.Index%4 == 1 && len(l.Archs) < 2 {
		l = model.Layout{Archs: []model.Arch{{Step: 1, Points: 30}, {Step: 5, Points: 40}, {Step: 30, Points: 20}}, Method: 1 + r.Intn(6), Xff: 0.5}
		sc.L = l
	}
	now := time.Now().Unix()
	nfiles := 1
	sc.Glob = c.Index%5 == 2
	if sc.Glob {
		nfiles = 3 + r.Intn(3)
	}
	states := []string{"absent", "never-written", "exact-copy", "finer-perturbed-coarser-equal", "perturbed", "unrelated"}
	sc.DestState = states[c.Index%len(states)]
	windows := []string{"default", "narrow", "past", "degenerate", "beyond-finest", "default"}
	sc.Window = windows[(c.Index/len(states))%len(windows)]
	if r.Intn(3) == 0 {
		sc.Archive = r.Intn(len(l.Archs))
	}
	sc.CopyNaN = r.Intn(2) == 0
	a0 := l.Archs[0]
	switch sc.Window {
	case "narrow":
		sc.From = now - r.Int63n(a0.Ret()/2+1) - 2
		sc.Until = sc.From + 1 + r.Int63n(3*int64(a0.Step)+1)
	case "past":
		sc.Until = now - a0.Ret()/3 - r.Int63n(a0.Ret()/3+1)
		sc.From = sc.Until - r.Int63n(l.MaxRet()/2+1) - 1
	case "degenerate":
		sc.From = now - r.Int63n(a0.Ret()) - 1
		sc.Until = sc.From
	case "beyond-finest":
		sc.Until = now - a0.Ret() - 2 - r.Int63n(int64(a0.Step)*3+1)
		sc.From = sc.Until - r.Int63n(l.MaxRet()/2+1) - 1
	}
	if sc.From < 1 && sc.Window != "default" {
		sc.From = 1
	}
	// ---- fixtures
	// when the destination is absent, the REQUESTED aggregation method and xFilesFactor (the command's flags) may differ
	// from those in the source file's own header: the created destination carries the requested ones
	srcL := l
	if sc.DestState == "absent" && c.Index%2 == 0 {
		srcL.Method = 1 + (l.Method+r.Intn(5))%6
		srcL.Xff = []float32{0, 0.25, 1}[r.Intn(3)]
		if srcL.Xff == l.Xff {
			srcL.Xff = 0.75
		}
		c.Count("requested_header_differs_from_source_header", 1)
	}
	srcContents := map[string]slotContent{}
	for i := 0; i < nfiles; i++ {
		rel := fmt.Sprintf("m%d.wsp", i)
		if sc.Glob && i%2 == 1 {
			rel = filepath.Join("sub", rel)
		}
		sc.Files = append(sc.Files, rel)
		cont := genContent(r, l, now, 0.3+0.6*r.Float64())
		if c.Index%17 == 3 {
			cont = genContent(r, l, now, 0) // empty source: nothing to copy
		}
		srcContents[rel] = cont
		if sc.Glob && i == 1 {
			// a matched source that is a symbolic link to a whisper file stored elsewhere
			real := filepath.Join(dir, "real", fmt.Sprintf("r%d.wsp", i))
			writeFixture(real, srcL, cont, now)
			mustMkdir(filepath.Dir(filepath.Join(srcBase, rel)))
			os.Remove(filepath.Join(srcBase, rel))
			if err := os.Symlink(real, filepath.Join(srcBase, rel)); err != nil {
				panic(err)
			}
			c.Count("symlinked_source_in_glob", 1)
		} else {
			writeFixture(filepath.Join(srcBase, rel), srcL, cont, now)
		}
		dp := filepath.Join(destBase, rel)
		switch sc.DestState {
		case "absent":
		case "never-written":
			writeFixture(dp, l, make(slotContent, len(l.Archs)), now)
			// writeFixture rewrites coarser archives with NaN points; a really fresh file instead:
			os.Remove(dp)
			mustMkdir(filepath.Dir(dp))
			db, err := createFile(dp, l)
			if err != nil {
				panic(err)
			}
			db.Sync()
			db.Close()
		case "exact-copy":
			writeFixture(dp, l, cont, now)
		case "finer-perturbed-coarser-equal":
			d := cloneContent(cont)
			perturb(r, d, []int{0}, 1+r.Intn(4))
			writeFixture(dp, l, d, now)
		case "perturbed":
			d := cloneContent(cont)
			all := []int{}
			for ai := range l.Archs {
				all = append(all, ai)
			}
			perturb(r, d, all, 1+r.Intn(5))
			writeFixture(dp, l, d, now)
		default:
			writeFixture(dp, l, genContent(r, l, now, 0.5), now)
		}
	}
	// the sources' modification times are no part of their contents: with an explicit window every 2nd case makes them
	// look untouched for two days (restored from a backup, written through mmap, clock skew of a file server)
	if sc.Until != 0 && c.Index%2 == 0 {
		old := time.Now().Add(-48 * time.Hour)
		for _, rel := range sc.Files {
			os.Chtimes(filepath.Join(srcBase, rel), old, old)
		}
		c.Count("sources_with_an_old_modification_time", 1)
	}
	srcBefore := map[string][]byte{}
	for _, rel := range sc.Files {
		srcBefore[rel] = readFileOrNil(filepath.Join(srcBase, rel))
	}
	// pre-state of destinations (for the coverage counter "coarser matched, finer differed")
	type pre struct {
		exists bool
		bytes  []byte
	}
	destPre := map[string]pre{}
	for _, rel := range sc.Files {
		b := readFileOrNil(filepath.Join(destBase, rel))
		destPre[rel] = pre{b != nil, b}
	}

	srcArg := sc.Files[0]
	if sc.Glob {
		srcArg = "*.wsp"
		if nfiles > 1 {
			srcArg = "*" // does not match sub/ files; use a second pattern below
		}
	}
	// non-canonical spellings of the source base in glob mode
	srcBaseArg := srcBase
	if sc.Glob {
		switch c.Index % 4 {
		case 1:
			srcBaseArg = srcBase + "/"
		case 2:
			srcBaseArg = srcBase + "/."
		case 3:
			srcBaseArg = filepath.Dir(srcBase) + "//" + filepath.Base(srcBase)
		}
		if srcBaseArg != srcBase {
			c.Count("unclean_base_spelling", 1)
		}
	}
	buildArgs := func(srcPattern string) []string {
		args := []string{"copy", "-src-base", srcBaseArg, "-src", srcPattern, "-dest-base", destBase,
			"-agg-method", model.MethodNames[l.Method], "-x-files-factor", strconv.FormatFloat(float64(l.Xff), 'g', -1, 32), "-retentions", l.RetentionString(),
			"-archive", strconv.Itoa(sc.Archive)}
		if sc.Until != 0 {
			args = append(args, "-from", tsArg(sc.From), "-until", tsArg(sc.Until))
		}
		if sc.CopyNaN {
			args = append(args, "-copy-nan")
		}
		return args
	}
	patterns := []string{srcArg}
	if sc.Glob {
		patterns = []string{"*.wsp", "sub/*.wsp"}
	}

	// ---- layout mismatch sub-scenario (existing destination with another layout)
	if c.Index%13 == 5 && sc.DestState != "absent" && !sc.Glob {
		other := model.Layout{Archs: append([]model.Arch(nil), l.Archs...), Method: l.Method, Xff: l.Xff}
		other.Archs[0].Points += 1 + uint32(r.Intn(5))
		if v, _ := model.ValidLayout(other.Archs); v == model.Valid {
			dp := filepath.Join(destBase, sc.Files[0])
			os.Remove(dp)
			writeFixture(dp, other, genContent(r, other, now, 0.5), now)
			before := readFileOrNil(dp)
			res := runCLI(c, buildArgs(sc.Files[0])...)
			after := readFileOrNil(dp)
			if cliPanicked(res) {
				c.Violationf("panic", res.brief(), "copy panicked on a layout mismatch")
				return
			}
			if res.Exit == 0 {
				c.Violationf("layout-mismatch-not-reported", fw.J{"scenario": sc, "run": res.brief()}, "copy between files of different layouts exited 0")
				return
			}
			if !bytes.Equal(before, after) {
				c.Violationf("layout-mismatch-wrote", fw.J{"scenario": sc, "run": res.brief()}, "copy reported a layout mismatch but modified the destination (byte %d)", firstDiff(before, after))
				return
			}
			c.Count("layout_mismatch_rejected", 1)
			c.Nontrivial("mismatch", fw.JSON(sc))
			return
		}
	}

	// glob mode: a file whose existing destination has another layout, followed (in glob order) by good files:
	// the failure must be reported and that destination left untouched
	if sc.Glob && c.Index%3 == 0 && nfiles >= 3 {
		var top []string
		for _, rel := range sc.Files {
			if filepath.Dir(rel) == "." {
				top = append(top, rel)
			}
		}
		if len(top) >= 2 {
			victim := top[0]
			other := model.Layout{Archs: append([]model.Arch(nil), l.Archs...), Method: l.Method, Xff: l.Xff}
			other.Archs[0].Points += 2 + uint32(r.Intn(4))
			if v, _ := model.ValidLayout(other.Archs); v == model.Valid {
				dp := filepath.Join(destBase, victim)
				writeFixture(dp, other, genContent(r, other, now, 0.5), now)
				before := readFileOrNil(dp)
				res := runCLI(c, buildArgs("*.wsp")...)
				if cliPanicked(res) {
					c.Violationf("panic", res.brief(), "copy panicked")
					return
				}
				if res.Exit == 0 {
					c.Violationf("glob-copy-hides-failed-file", fw.J{"scenario": sc, "run": res.brief(), "mismatching_file": victim}, "glob copy exited 0 although %s has a layout mismatch (it is followed by files that copy fine)", victim)
					return
				}
				if !bytes.Equal(before, readFileOrNil(dp)) {
					c.Violationf("layout-mismatch-wrote", fw.J{"scenario": sc, "run": res.brief()}, "glob copy modified the mismatching destination %s", victim)
					return
				}
				c.Count("glob_failing_file_reported", 1)
				c.Nontrivial("glob-mismatch", fw.JSON(sc))
				return
			}
		}
	}
	// ---- glob copy from a server whose file listing breaks off (the peer dies after sending the first half of it,
	// complete lines only): either the command fails, or every matched file was copied
	if sc.Glob && c.Index%10 == 7 {
		if u, served, ok := workerServer(c); ok {
			name := fmt.Sprintf("c08-%d", c.Index)
			link := filepath.Join(served, name)
			lsrc := filepath.Join(dir, "src-listing")
			mustMkdir(lsrc)
			os.Symlink(lsrc, link)
			defer os.Remove(link)
			for k := 0; k < 6; k++ {
				writeFixture(filepath.Join(lsrc, fmt.Sprintf("x%d.wsp", k)), srcL, genContent(r, l, now, 0.5), now)
			}
			proxy := breakingListingProxy(u)
			bdest := filepath.Join(dir, "dest-broken-listing")
			mustMkdir(bdest)
			args := []string{"copy", "-src-base", proxy.URL, "-src", name + "/*.wsp", "-dest-base", bdest,
				"-agg-method", model.MethodNames[l.Method], "-x-files-factor", strconv.FormatFloat(float64(l.Xff), 'g', -1, 32), "-retentions", l.RetentionString()}
			res := runCLI(c, args...)
			proxy.Close()
			c.Count("glob_copies_with_a_listing_that_breaks_off", 1)
			if cliPanicked(res) {
				c.Violationf("panic", res.brief(), "copy panicked")
				return
			}
			if res.Exit == 0 {
				matched, _ := filepath.Glob(filepath.Join(lsrc, "*.wsp"))
				missing := []string{}
				for _, m := range matched {
					if !fileExists(filepath.Join(bdest, name, filepath.Base(m))) {
						missing = append(missing, filepath.Base(m))
					}
				}
				if len(missing) > 0 {
					c.Violationf("glob-copy-incomplete-listing-taken-as-complete", fw.J{"run": res.brief(), "not_copied": missing, "matched": len(matched)},
						"the server's file listing broke off half way; copy exited 0 and left %d of %d matched files uncopied", len(missing), len(matched))
					return
				}
			}
		}
	}
	copied, survived := int64(0), int64(0)
	for _, pat := range patterns {
		var slowWG sync.WaitGroup
		if sc.Glob && pat == "*.wsp" && sc.Until == 0 && sc.Archive <= 0 && c.Index%2 == 0 {
			// the first file is slow (its source is locked by another handle for a moment) and meanwhile a fresh
			// point arrives in the LAST file's source: every file's default window ends at its own clock
			var top []string
			for _, rel := range sc.Files {
				if filepath.Dir(rel) == "." {
					top = append(top, rel)
				}
			}
			sort.Strings(top)
			if len(top) >= 2 {
				if hold, err := wt.Open(filepath.Join(srcBase, top[0])); err == nil {
					last := top[len(top)-1]
					slowWG.Add(1)
					go func() {
						defer slowWG.Done()
						time.Sleep(time.Duration(1200+r.Intn(600)) * time.Millisecond)
						lp := filepath.Join(srcBase, last)
						if db, err := wt.Open(lp); err == nil {
							tn := time.Now().Unix()
							db.UpdatePointsForArchive([]wt.Point{{Time: u32(tn), Value: 54321.5}}, 0, u32(tn))
							db.Sync()
							db.Close()
							srcBefore[last] = readFileOrNil(lp)
						}
						hold.Close()
					}()
					c.Count("slow_first_file_runs", 1)
				}
			}
		}
		res := runCLI(c, buildArgs(pat)...)
		slowWG.Wait()
		det := fw.J{"scenario": sc, "run": res.brief(), "fixture_clock": now}
		if cliPanicked(res) {
			c.Violationf("panic", det, "copy panicked")
			return
		}
		if res.Exit != 0 {
			c.Violationf("copy-failed", det, "copy exited %d on a valid request: %s", res.Exit, truncStr(res.Stderr, 300))
			return
		}
		out := parseOutput(res.Stdout)
		// which files does this invocation cover
		var rels []string
		for _, rel := range sc.Files {
			inSub := filepath.Dir(rel) == "sub"
			if !sc.Glob || (pat == "sub/*.wsp") == inSub {
				rels = append(rels, rel)
			}
		}
		if len(out.Nows) != len(rels) {
			c.Violationf("copy-now-lines", det, "copy printed %d now: lines for %d matched files", len(out.Nows), len(rels))
			return
		}
		for fi, rel := range rels {
			cmdNow := out.Nows[fi].Now
			if out.Nows[fi].Name != rel {
				c.Violationf("copy-now-lines", det, "now: line %d names %q, want %q", fi, out.Nows[fi].Name, rel)
				return
			}
			until := sc.Until
			if until == 0 {
				until = cmdNow
			}
			sp, dp := filepath.Join(srcBase, rel), filepath.Join(destBase, rel)
			if !bytes.Equal(srcBefore[rel], readFileOrNil(sp)) {
				c.Violationf("source-modified", det, "copy modified its source %s", rel)
				return
			}
			c.Count("source_unchanged_checks", 1)
			if !fileExists(dp) {
				c.Violationf("dest-not-created", det, "after a successful copy the destination %s does not exist", rel)
				return
			}
			dimg := readFileOrNil(dp)
			if !destPre[rel].exists {
				c.Count("dest_absent_created", 1)
				want := model.EncodeHeader(l)
				if int64(len(dimg)) != l.FileSize() || !bytes.Equal(dimg[:len(want)], want) {
					c.Violationf("created-dest-header", fw.J{"scenario": sc, "run": res.brief(), "header_hex": fmt.Sprintf("%x", dimg[:minI(len(dimg), len(want))])},
						"the created destination %s does not carry the requested layout/method/xFilesFactor (len %d, want %d)", rel, len(dimg), l.FileSize())
					return
				}
			}
			srcTs, _, err := fetchArchives(sp, sc.Archive, sc.From, until, cmdNow)
			if err != nil {
				panic(err)
			}
			dstTs, _, err := fetchArchives(dp, sc.Archive, sc.From, until, cmdNow)
			if err != nil {
				c.Violationf("dest-unreadable", det, "destination %s unreadable after copy: %v", rel, err)
				return
			}
			// previous destination content for the coverage counters
			var preTs []*wt.TimeSeries
			if destPre[rel].exists {
				pp := filepath.Join(dir, "pre.wsp")
				os.WriteFile(pp, destPre[rel].bytes, 0644)
				preTs, _, _ = fetchArchives(pp, sc.Archive, sc.From, until, cmdNow)
			}
			nonEmpty := false
			coarserMatched, finerDiffered := false, false
			for ai := range l.Archs {
				s, d := srcTs[ai], dstTs[ai]
				if s == nil {
					continue
				}
				if d == nil || len(d.Values()) != len(s.Values()) || d.FromTime() != s.FromTime() {
					c.Violationf("copy-dest-shape", det, "archive %d: destination series shape differs from the source's", ai)
					return
				}
				for j, sv := range s.Values() {
					dv := float64(d.Values()[j])
					c.Count("slots_compared", 1)
					t := int64(s.FromTime()) + int64(j)*int64(s.Step())
					if !math.IsNaN(float64(sv)) {
						nonEmpty = true
						if !valEq(float64(sv), dv) {
							c.Violationf("copy-dest-differs-from-src", fw.J{"scenario": sc, "run": res.brief(), "file": rel, "archive": ai, "t": t, "src": float64(sv), "dest": fmt.Sprint(dv), "cmd_now": cmdNow},
								"after copy archive %d slot %d of %s: source %v, destination %v", ai, t, rel, float64(sv), dv)
							return
						}
						if preTs != nil && preTs[ai] != nil && j < len(preTs[ai].Values()) {
							if valEq(float64(preTs[ai].Values()[j]), float64(sv)) {
								survived++
								if ai > 0 {
									coarserMatched = true
								}
							} else {
								copied++
								if ai == 0 {
									finerDiffered = true
								}
							}
						} else {
							copied++
						}
					} else if sc.CopyNaN && !math.IsNaN(dv) {
						c.Violationf("copy-nan-not-copied", fw.J{"scenario": sc, "run": res.brief(), "file": rel, "archive": ai, "t": t, "dest": dv},
							"with -copy-nan archive %d slot %d of %s: source NaN, destination %v", ai, t, rel, dv)
						return
					}
				}
			}
			if coarserMatched && finerDiffered {
				c.Count("coarser_matched_finer_differed", 1)
			}
			if !destPre[rel].exists && !nonEmpty {
				c.Count("dest_absent_nothing_to_copy", 1)
			}
		}
		c.Count("copies_ok", 1)
		// ---- repeat: nothing changes
		snap := map[string][]byte{}
		for _, rel := range rels {
			snap[rel] = readFileOrNil(filepath.Join(destBase, rel))
		}
		res2 := runCLI(c, buildArgs(pat)...)
		if res2.Exit != 0 || cliPanicked(res2) {
			c.Violationf("repeat-copy-failed", fw.J{"scenario": sc, "run": res2.brief()}, "the repeated copy exited %d", res2.Exit)
			return
		}
		for _, rel := range rels {
			if !bytes.Equal(snap[rel], readFileOrNil(filepath.Join(destBase, rel))) {
				c.Violationf("repeat-copy-changed-dest", fw.J{"scenario": sc, "run": res2.brief(), "file": rel}, "repeating the same copy changed the destination %s at byte %d", rel, firstDiff(snap[rel], readFileOrNil(filepath.Join(destBase, rel))))
				return
			}
		}
		c.Count("repeat_idempotent", 1)
		// ---- diff over the same window is clean (with -copy-nan every slot of the window is equal)
		if sc.CopyNaN {
			dargs := []string{"diff", "-src-base", srcBase, "-src", pat, "-dest-base", destBase, "-archive", strconv.Itoa(sc.Archive)}
			if sc.Until != 0 {
				dargs = append(dargs, "-from", tsArg(sc.From), "-until", tsArg(sc.Until))
			}
			dres := runCLI(c, dargs...)
			if dres.Exit != 0 {
				c.Violationf("diff-after-copy-not-clean", fw.J{"scenario": sc, "copy": res.brief(), "diff": dres.brief()}, "diff right after copy -copy-nan over the same window exited %d", dres.Exit)
				return
			}
			c.Count("diff_after_copy_clean", 1)
		}
	}
	c.Count("slots_copied", copied)
	switch sc.Window {
	case "narrow", "degenerate":
		c.Count("narrow_window", 1)
	case "beyond-finest", "past":
		c.Count("window_beyond_finest_retention", 1)
	}
	if sc.Archive >= 0 {
		c.Count("single_archive_selection", 1)
	}
	if sc.Glob && nfiles >= 3 {
		c.Count("glob_mode_3plus_files", 1)
	}
	if sc.CopyNaN {
		c.Count("copy_nan_mode", 1)
	}
	if copied > 0 && survived > 0 {
		c.Nontrivial(fw.JSON(sc))
	}
	if c.Index < 64 {
		c.Sample(fw.J{"scenario": sc, "slots_copied": copied, "equal_slots_that_survived": survived})
	}
}
