// Package props contains one file per property: workload + monitor.
package props

import (
	"fmt"
	"io/ioutil"
	"math"
	"math/rand"
	"os"
	"path/filepath"
	"time"

	wt "github.com/hnakamur/whispertool"

	"verifharness/model"
)

// ---------------------------------------------------------------------------
// conversions between the model's plain types and the library's types

func archiveInfoList(l model.Layout) wt.ArchiveInfoList {
	var aa wt.ArchiveInfoList
	for _, a := range l.Archs {
		aa = append(aa, wt.NewArchiveInfo(wt.Duration(a.Step), a.Points))
	}
	return aa
}

func createFile(path string, l model.Layout, opts ...wt.Option) (*wt.Whisper, error) {
	return wt.Create(path, archiveInfoList(l), wt.AggregationMethod(l.Method), l.Xff, opts...)
}

// rawOf reads the physical state of all archives through the live handle.
func rawOf(db *wt.Whisper) (model.Raw, error) {
	n := len(db.ArchiveInfoList())
	raw := make(model.Raw, n)
	for i := 0; i < n; i++ {
		pts, err := db.GetAllRawUnsortedPoints(i)
		if err != nil {
			return nil, err
		}
		s := make([]model.Slot, len(pts))
		for j, p := range pts {
			s[j] = model.Slot{T: uint32(p.Time), Bits: math.Float64bits(float64(p.Value))}
		}
		raw[i] = s
	}
	return raw, nil
}

func rawOfFile(path string) (*model.ParsedHeader, model.Raw, []byte, error) {
	b, err := ioutil.ReadFile(path)
	if err != nil {
		return nil, nil, nil, err
	}
	h, raw, err := model.ParseFile(b)
	return h, raw, b, err
}

func toPoints(pts []model.PtBits) []wt.Point {
	out := make([]wt.Point, len(pts))
	for i, p := range pts {
		out[i] = wt.Point{Time: wt.Timestamp(p.T), Value: wt.Value(math.Float64frombits(p.Bits))}
	}
	return out
}

func valueBits(v wt.Value) uint64 { return math.Float64bits(float64(v)) }

func isNaNBits(b uint64) bool { return math.IsNaN(math.Float64frombits(b)) }

// ---------------------------------------------------------------------------
// generators (all driven by the case PRNG)

var stepChoices = []uint32{1, 1, 1, 2, 3, 5, 7, 10, 10, 15, 60, 60, 300, 3600}
var ratioChoices = []uint32{2, 2, 3, 4, 5, 6, 10, 12, 30, 60}

type layoutOpts struct {
	minArch, maxArch int
	maxPoints0       int  // cap of the finest archive's point count (0 = default 1500)
	multiPage        bool // prefer archives spanning several 4 KiB pages
	smallRatios      bool // keep ratios small (cheap propagation)
	maxStep0         uint32
}

func pick32(r *rand.Rand, xs []uint32) uint32 { return xs[r.Intn(len(xs))] }

// genLayout produces a valid layout. The classes of point counts follow DESIGN.md (C01).
func genLayout(r *rand.Rand, o layoutOpts) model.Layout {
	for try := 0; ; try++ {
		if try > 20 {
			o.smallRatios = true
			o.maxStep0 = 60
		}
		l := genLayoutOnce(r, o)
		if v, _ := model.ValidLayout(l.Archs); v != model.Valid {
			continue
		}
		// the clock domain must be non-empty: maxRet + 2*maxStep <= now <= 2^32-1 - 2*maxStep - 1
		if l.MaxRet()+4*l.MaxStep()+4096 >= int64(math.MaxUint32) {
			continue
		}
		return l
	}
}

func genLayoutOnce(r *rand.Rand, o layoutOpts) model.Layout {
	if o.maxArch == 0 {
		o.minArch, o.maxArch = 1, 4
	}
	if o.maxPoints0 == 0 {
		o.maxPoints0 = 1500
	}
	k := o.minArch + r.Intn(o.maxArch-o.minArch+1)
	var l model.Layout
	l.Method = 1 + r.Intn(6)
	switch r.Intn(6) {
	case 0:
		l.Xff = 0
	case 1:
		l.Xff = 0.5
	case 2:
		l.Xff = 1
	case 3:
		l.Xff = 0.25
	default:
		l.Xff = float32(r.Intn(1001)) / 1000
	}
	step := pick32(r, stepChoices)
	if o.maxStep0 != 0 && step > o.maxStep0 {
		step = 1 + uint32(r.Intn(int(o.maxStep0)))
	}
	if k == 1 {
		var n uint32
		switch r.Intn(6) {
		case 0:
			n = 1
		case 1:
			n = 2
		case 2:
			if o.maxPoints0 > 350 {
				n = uint32(350 + r.Intn(o.maxPoints0-349))
			} else {
				n = uint32(1 + r.Intn(o.maxPoints0))
			}
		default:
			n = uint32(1 + r.Intn(60))
		}
		if o.multiPage && n < 350 && o.maxPoints0 >= 400 {
			n = uint32(350 + r.Intn(o.maxPoints0-349))
		}
		l.Archs = []model.Arch{{Step: step, Points: n}}
		return l
	}
	ratios := make([]uint32, k-1)
	for i := range ratios {
		if o.smallRatios {
			ratios[i] = uint32(2 + r.Intn(5))
		} else {
			ratios[i] = pick32(r, ratioChoices)
		}
	}
	// keep the coarsest step within int32 and reasonable
	pts := make([]uint32, k)
	// finest archive
	r0 := ratios[0]
	switch c := r.Intn(6); {
	case c == 0:
		pts[0] = r0
	case c == 1:
		pts[0] = r0 + 1
	case c == 2 || o.multiPage:
		lo := 350
		if int(r0) > lo {
			lo = int(r0)
		}
		hi := o.maxPoints0
		if hi < lo {
			hi = lo
		}
		pts[0] = uint32(lo + r.Intn(hi-lo+1))
	default:
		pts[0] = r0 + uint32(r.Intn(40))
	}
	steps := make([]uint32, k)
	steps[0] = step
	for i := 1; i < k; i++ {
		steps[i] = steps[i-1] * ratios[i-1]
		// minimal count so that retention strictly grows
		min := pts[i-1]/ratios[i-1] + 1
		if i < k-1 && min < ratios[i] {
			min = ratios[i]
		}
		switch r.Intn(4) {
		case 0:
			pts[i] = min // ring barely longer than the finer one
		case 1:
			pts[i] = min + 1
		default:
			pts[i] = min + uint32(r.Intn(30))
		}
	}
	for i := 0; i < k; i++ {
		l.Archs = append(l.Archs, model.Arch{Step: steps[i], Points: pts[i]})
	}
	return l
}

// genClock chooses a virtual "now" in the explored domain:
// maxRet + 2*maxStep <= now and now + 2*maxStep < 2^32 (a degenerate window at the newest
// instant extends to alignNext(now)+step, which must still be a 32-bit time).
func genClock(r *rand.Rand, l model.Layout) int64 {
	lo := l.MaxRet() + 2*l.MaxStep()
	hi := int64(math.MaxUint32) - 2*l.MaxStep() - 1
	if lo > hi {
		panic("layout too long for the clock domain")
	}
	var now int64
	switch r.Intn(10) {
	case 0:
		now = lo + int64(r.Intn(1000))
	case 1:
		now = hi - int64(r.Intn(1000))
	case 2:
		now = int64(1)<<31 + int64(r.Intn(2000)) - 1000 // around the int32 boundary
	case 3, 4:
		now = lo + r.Int63n(hi-lo+1)
	default:
		now = 1500000000 + int64(r.Intn(300000000))
	}
	if now < lo {
		now = lo
	}
	if now > hi {
		now = hi
	}
	// alignment classes against a random archive step
	a := l.Archs[r.Intn(len(l.Archs))]
	switch r.Intn(5) {
	case 0:
		now = model.AlignDown(now, a.Step)
	case 1:
		now = model.AlignDown(now, a.Step) + 1
	case 2:
		now = model.AlignDown(now, a.Step) + int64(a.Step) - 1
	}
	if now < lo {
		now += int64(a.Step) * ((lo-now)/int64(a.Step) + 1)
	}
	if now > hi {
		now = hi
	}
	return now
}

// genValueBits produces float64 bit patterns; hostile adds NaN payloads and infinities.
func genValueBits(r *rand.Rand, hostile bool) uint64 {
	switch c := r.Intn(12); {
	case c == 0:
		return math.Float64bits(0)
	case c == 1:
		return math.Float64bits(math.Copysign(0, -1))
	case c == 2:
		return math.Float64bits(float64(r.Intn(100)))
	case c == 3:
		return math.Float64bits(-float64(r.Intn(100)) - 0.5)
	case c == 4 && hostile:
		return 0x7ff8000000000000 | uint64(r.Int63n(1<<40)) // quiet NaN with payload
	case c == 5 && hostile:
		if r.Intn(2) == 0 {
			return math.Float64bits(math.Inf(1))
		}
		return math.Float64bits(math.Inf(-1))
	case c == 6 && hostile:
		return 0x7ff0000000000001 | uint64(r.Int63n(1<<30)) // signalling NaN
	case c == 7:
		return math.Float64bits(math.Float64frombits(uint64(r.Int63())&0x7fefffffffffffff) * sign(r)) // random finite magnitude
	default:
		return math.Float64bits((r.Float64()*2 - 1) * math.Pow(10, float64(r.Intn(12)-3)))
	}
}

func sign(r *rand.Rand) float64 {
	if r.Intn(2) == 0 {
		return -1
	}
	return 1
}

// ---------------------------------------------------------------------------
// misc

const pageSize = 4096

func fileExists(p string) bool {
	_, err := os.Stat(p)
	return err == nil
}

func mustMkdir(p string) {
	if err := os.MkdirAll(p, 0755); err != nil {
		panic(err)
	}
}

func joinTmp(dir string, parts ...string) string {
	return filepath.Join(append([]string{dir}, parts...)...)
}

func u32(x int64) wt.Timestamp {
	if x < 0 || x > math.MaxUint32 {
		panic(fmt.Sprintf("timestamp %d outside uint32", x))
	}
	return wt.Timestamp(x)
}

// slotStraddlesPage reports whether the 12-byte slot idx of an archive at byte offset off crosses a page boundary.
func slotStraddlesPage(off int64, idx int) bool {
	p := off + 12*int64(idx)
	return p/pageSize != (p+11)/pageSize
}

// ChildMain dispatches auxiliary child-process roles (used by C05 and C13).
func ChildMain(args []string) int {
	if len(args) == 0 {
		return 2
	}
	if f, ok := childRoles[args[0]]; ok {
		return f(args[1:])
	}
	fmt.Fprintln(os.Stderr, "unknown child role", args[0])
	return 2
}

var childRoles = map[string]func([]string) int{}

// waitingOpener: a locking handle A is opened on path; a second locking Open (B) starts while A holds the file and
// has to wait; A then writes points into every archive, Syncs and Closes. B must see exactly A's final state.
// It returns a description of the first disagreement ("" if none) and whether B had to wait at all.
func waitingOpener(path string, l model.Layout, now int64, r *rand.Rand) (diff string, waited bool) {
	a, err := wt.Open(path)
	if err != nil {
		return "holder Open failed: " + err.Error(), false
	}
	var b *wt.Whisper
	var berr error
	done := make(chan struct{})
	go func() { b, berr = wt.Open(path); close(done) }()
	time.Sleep(25 * time.Millisecond)
	select {
	case <-done:
	default:
		waited = true
	}
	for ai, ar := range l.Archs {
		n := 40
		if ai > 0 {
			n = 6
		}
		for j := 0; j < n; j++ {
			t := inRangeTime(r, now, ar.Ret())
			if err := a.UpdatePointForArchive(ai, u32(t), wt.Value(float64(1000+j)+0.125), u32(now)); err != nil {
				a.Close()
				<-done
				if b != nil {
					b.Close()
				}
				return "holder update failed: " + err.Error(), waited
			}
		}
	}
	rawA, rerr := rawOf(a)
	serr := a.Sync()
	a.Close()
	select {
	case <-done:
	case <-time.After(60 * time.Second):
		return "the waiting Open did not return within 60 s after the holder closed", waited
	}
	if rerr != nil || serr != nil {
		if b != nil {
			b.Close()
		}
		return fmt.Sprintf("holder read/sync failed: %v %v", rerr, serr), waited
	}
	if berr != nil {
		return "the waiting Open failed: " + berr.Error(), waited
	}
	defer b.Close()
	rawB, err := rawOf(b)
	if err != nil {
		return "the waiting handle cannot read: " + err.Error(), waited
	}
	for ai := range rawA {
		if d := model.EqualSlots(rawA[ai], rawB[ai]); d >= 0 {
			return fmt.Sprintf("archive %d slot %d: the holder synced %v, the handle whose Open waited for the lock reads %v", ai, d, rawA[ai][d], rawB[ai][d]), waited
		}
	}
	// and through the fetch interface
	for ai, ar := range l.Archs {
		ts, err := b.FetchFromArchive(ai, u32(now-ar.Ret()), u32(now), u32(now))
		if err != nil || ts == nil {
			return fmt.Sprintf("archive %d: fetch through the waiting handle failed: %v", ai, err), waited
		}
		for i, p := range ts.Points() {
			want := math.NaN()
			idx := model.SlotIndex(rawA[ai][0].T, int64(p.Time), ar)
			if rawA[ai][0].T != 0 && int64(rawA[ai][idx].T) == int64(p.Time) {
				want = math.Float64frombits(rawA[ai][idx].Bits)
			}
			got := float64(p.Value)
			if math.Float64bits(want) != math.Float64bits(got) && !(want != want && got != got) {
				return fmt.Sprintf("archive %d value %d (t=%d): the waiting handle fetches %v, the holder synced %v", ai, i, p.Time, got, want), waited
			}
		}
	}
	return "", waited
}
