package props

import (
	"bytes"
	"fmt"
	"io/ioutil"
	"math"
	"math/rand"
	"net"
	"net/http"
	"net/url"
	"os"
	"os/exec"
	"path/filepath"
	"strings"
	"sync"
	"sync/atomic"
	"syscall"
	"time"

	wt "github.com/hnakamur/whispertool"
	wcmd "github.com/hnakamur/whispertool/cmd"

	"verifharness/fw"
	"verifharness/model"
)

// C17 Concurrent reads are race-free and equal to sequential reads.

type c17 struct{}

func init() { fw.Register(c17{}) }

func (c17) Meta() fw.Meta {
	return fw.Meta{
		ID: "C17",
		Rule: "trial kinds (by index mod 3): (A) 4-32 goroutines issue random (archive, window) fetches and raw dumps on ONE freshly opened handle (multi-page file, cold page cache), each result compared bit-exactly with the same request executed alone on another handle before and on the shared handle after; " +
			"(B) the sum read path (cmd.sumWhisperFile via the verif export hook) over 2-40 files from several goroutines while a harness handle holds the flock of the first file for a few ms (forcing out-of-order completion): header must be the first file's and every value the left fold in glob order of the per-file fetches; the real copy/diff binaries (errgroup reads) built with -race are run too; " +
			"(C) the real server built with -race is hit by 8-64 parallel HTTP clients over all five endpoints, same and different files; each concurrent body must be byte-equal to the body of the same URL requested alone. " +
			"The Go race detector is on in every process (harness, CLI, server); reports are collected from GORACE log files and each is a violation. " +
			"non-trivial = trial in which at least two distinct requests were in flight simultaneously (measured in the harness); distinct by (kind, seed, index)." +
			" After the parallel phase: a request that fails after its file was opened (archive id out of range, from > until), then a valid request for the same file with a 20 s deadline." +
			" Concurrent sums run under a 240 s watchdog; every 2nd server trial adds 90 simultaneous requests for a file a writer holds for 1-1.5 s plus one request per other endpoint meanwhile." +
			" Every 2nd shared-handle trial has one damaged archive next to healthy ones (reference: a fresh handle per request); the parallel request mix contains 30 failing requests of five kinds.",
		Assumptions: []string{
			"the race detector sees only races that happen in the executed schedules; in-flight overlap is measured and a trial without overlap does not count as non-trivial",
			"requests carry their clock (now) so sequential and concurrent executions are comparable bit for bit",
		},
		Obligations: []string{"handle_trials", "handle_concurrent_calls", "sum_trials", "sum_concurrent_calls", "sum_out_of_order_forced", "server_trials", "server_concurrent_requests", "endpoint_view", "endpoint_view_raw", "endpoint_sum", "endpoint_items", "endpoint_files", "cli_race_runs", "max_in_flight_ge2", "requests_differing_only_in_clock", "sum_error_path_trials", "trials_with_never_written_archives", "served_file_locked_over_1s", "requests_after_a_failed_request", "trials_with_90_requests_in_their_handlers", "handle_trials_with_a_damaged_archive", "failing_requests_in_the_parallel_mix"},
		Race:        true,
		Workers:     6,
	}
}

func (c17) Cases(tier string) int {
	if tier == "thorough" {
		return 1500
	}
	return 36
}

// c17Sparse makes c17FillFile leave some archives never written (set by the trials that want it).
var c17Sparse = false

func c17FillFile(r *rand.Rand, path string, l model.Layout, now int64, integer bool) {
	db, err := createFile(path, l)
	if err != nil {
		panic(err)
	}
	for ai, a := range l.Archs {
		if c17Sparse && r.Intn(3) == 0 {
			continue // this archive stays never written
		}
		n := int(a.Points)
		pts := make([]wt.Point, 0, n)
		for i := 0; i < n; i++ {
			if r.Intn(5) == 0 {
				continue
			}
			v := float64(r.Intn(1000))
			if !integer {
				v = float64(r.Intn(1000)) / 10 // 0.1 steps: addition order matters
			}
			pts = append(pts, wt.Point{Time: u32(now - int64(i)*int64(a.Step)), Value: wt.Value(v)})
		}
		if err := db.UpdatePointsForArchive(pts, ai, u32(now)); err != nil {
			panic(err)
		}
	}
	if err := db.Sync(); err != nil {
		panic(err)
	}
	db.Close()
}

type c17req struct {
	Arch        int
	From, Until int64
	Raw         bool
}

func tsKey(ts *wt.TimeSeries, err error) string {
	if err != nil {
		return "err:" + err.Error()
	}
	if ts == nil {
		return "nil"
	}
	var b bytes.Buffer
	fmt.Fprintf(&b, "%d/%d/%d:", ts.FromTime(), ts.UntilTime(), ts.Step())
	for _, v := range ts.Values() {
		fmt.Fprintf(&b, "%x,", valueBits(v))
	}
	return b.String()
}

func ptsKey(p wt.Points, err error) string {
	if err != nil {
		return "err:" + err.Error()
	}
	var b bytes.Buffer
	for _, x := range p {
		fmt.Fprintf(&b, "%d=%x,", x.Time, valueBits(x.Value))
	}
	return b.String()
}

func (c17) Run(c *fw.Ctx) {
	switch c.Index % 3 {
	case 0:
		c17Handle(c)
	case 1:
		// the concurrent sums run under a logical watchdog: reads that wait for each other never return, and a run that
		// merely ends "inconclusive" after the worker's own watchdog would not name them
		if c.Env.State["c17_sums_hung"] != nil {
			c.Count("sum_trials_skipped_after_hang", 1)
			return
		}
		done := make(chan struct{})
		go func() { defer close(done); c17Sum(c) }()
		select {
		case <-done:
		case <-time.After(240 * time.Second):
			c.Env.State["c17_sums_hung"] = true
			c.Violationf("concurrent-sums-do-not-return", fw.J{}, "concurrent sums over the same files (2-6 callers, 2-40 files, the first file locked for a few ms) did not return within 240 s")
		}
	default:
		c17Server(c)
	}
}

// ---- (A) one shared handle
func c17Handle(c *fw.Ctx) {
	r := c.Rng
	l := genLayout(r, layoutOpts{minArch: 2, maxArch: 4, maxPoints0: 3000, multiPage: true, smallRatios: true})
	now := int64(1700000000 + r.Intn(1000000))
	path := filepath.Join(c.TmpDir(), "shared.wsp")
	c17FillFile(r, path, l, now, true)
	if c.Index%2 == 0 {
		// every 2nd trial: one archive is damaged (its first slot holds a time that is no multiple of the step), the others
		// are healthy; fetches of the damaged one fail, and that must stay their own business
		for ai := len(l.Archs) - 1; ai >= 1; ai-- {
			if l.Archs[ai].Step < 2 {
				continue
			}
			if img := readFileOrNil(path); img != nil {
				off := l.Offsets()[ai]
				t := uint32(model.AlignDown(now, l.Archs[ai].Step)) + 1
				img[off], img[off+1], img[off+2], img[off+3] = byte(t>>24), byte(t>>16), byte(t>>8), byte(t)
				ioutil.WriteFile(path, img, 0644)
				c.Count("handle_trials_with_a_damaged_archive", 1)
			}
			break
		}
	}
	var reqs []c17req
	for i := 0; i < 80; i++ {
		ai := r.Intn(len(l.Archs))
		a := l.Archs[ai]
		if r.Intn(12) == 0 {
			reqs = append(reqs, c17req{Arch: ai, Raw: true})
			continue
		}
		w := genWindows(r, a, uint32(model.AlignDown(now, a.Step)), now, 3)[r.Intn(3)]
		reqs = append(reqs, c17req{Arch: ai, From: w.From, Until: w.Until})
	}
	exec1 := func(db *wt.Whisper, q c17req) string {
		if q.Raw {
			return ptsKey(db.GetAllRawUnsortedPoints(q.Arch))
		}
		return tsKey(db.FetchFromArchive(q.Arch, u32(q.From), u32(q.Until), u32(now)))
	}
	// sequential reference on another handle (keeps the shared handle's cache cold)
	want := make([]string, len(reqs))
	for i, q := range reqs {
		// "executed alone": a handle of its own for every reference request
		ref, err := wt.Open(path, wt.WithoutFlock())
		if err != nil {
			panic(err)
		}
		want[i] = exec1(ref, q)
		ref.Close()
	}
	shared, err := wt.Open(path)
	if err != nil {
		panic(err)
	}
	defer shared.Close()
	K := 4 + r.Intn(29)
	var inflight, maxInflight int64
	var wg sync.WaitGroup
	var mu sync.Mutex
	type bad struct {
		i   int
		got string
	}
	var bads []bad
	var calls int64
	start := make(chan struct{})
	for g := 0; g < K; g++ {
		order := r.Perm(len(reqs))
		wg.Add(1)
		go func(order []int) {
			defer wg.Done()
			<-start
			for _, i := range order[:40] {
				n := atomic.AddInt64(&inflight, 1)
				for {
					m := atomic.LoadInt64(&maxInflight)
					if n <= m || atomic.CompareAndSwapInt64(&maxInflight, m, n) {
						break
					}
				}
				got := exec1(shared, reqs[i])
				atomic.AddInt64(&inflight, -1)
				atomic.AddInt64(&calls, 1)
				if got != want[i] {
					mu.Lock()
					bads = append(bads, bad{i, got})
					mu.Unlock()
				}
			}
		}(order)
	}
	close(start)
	wg.Wait()
	c.Count("handle_trials", 1)
	c.Count("handle_concurrent_calls", calls)
	if maxInflight >= 2 {
		c.Count("max_in_flight_ge2", 1)
		c.Nontrivial("handle", c.Seed, c.Index)
	}
	for _, b := range bads[:minI(len(bads), 2)] {
		q := reqs[b.i]
		c.Violationf("concurrent-fetch-differs", fw.J{"layout": l, "now": now, "request": q, "goroutines": K, "want": truncStr(want[b.i], 400), "got": truncStr(b.got, 400)},
			"with %d goroutines on one handle, request %+v returned a different result than when executed alone", K, q)
	}
	for i, q := range reqs {
		if got := exec1(shared, q); got != want[i] {
			c.Violationf("after-pass-differs", fw.J{"layout": l, "now": now, "request": q}, "after the concurrent phase request %+v on the shared handle differs from the reference", q)
			break
		}
	}
	c.Sample(fw.J{"kind": "shared-handle", "layout": l.String(), "goroutines": K, "requests": len(reqs), "max_in_flight": maxInflight})
}

// ---- (B) sum over many files
func c17Sum(c *fw.Ctx) {
	r := c.Rng
	dir := c.TmpDir()
	base := filepath.Join(dir, "tree")
	item := "grp"
	mustMkdir(filepath.Join(base, item))
	l := genLayout(r, layoutOpts{minArch: 1, maxArch: 3, maxPoints0: 400, smallRatios: true})
	now := int64(1700000000 + r.Intn(1000000))
	nf := 2 + r.Intn(39)
	c17Sparse = c.Index%2 == 0
	defer func() { c17Sparse = false }()
	if c17Sparse {
		c.Count("trials_with_never_written_archives", 1)
	}
	var names []string
	for i := 0; i < nf; i++ {
		li := l
		// same archive list, different method / xff in the header: the result header must be the FIRST file's
		li.Method = 1 + r.Intn(6)
		li.Xff = float32(r.Intn(5)) / 4
		name := fmt.Sprintf("f%03d.wsp", i)
		names = append(names, name)
		c17FillFile(r, filepath.Join(base, item, name), li, now, false)
	}
	from, until := now-l.MaxRet(), now
	// reference: per-file fetches folded left in glob (= name) order
	type ref struct {
		hdr string
		key []string
	}
	var want ref
	{
		var lists []wcmd.TimeSeriesList
		for i, n := range names {
			h, tl, err := wcmd.VerifReadWhisperFile(base, filepath.Join(item, n), -1, u32(from), u32(until), u32(now))
			if err != nil {
				panic(err)
			}
			if i == 0 {
				want.hdr = h.String()
			}
			lists = append(lists, tl)
		}
		for ai := range l.Archs {
			ts0 := lists[0][ai]
			vals := append([]wt.Value(nil), ts0.Values()...)
			for _, tl := range lists[1:] {
				for j, v := range tl[ai].Values() {
					vals[j] = vals[j].Add(v)
				}
			}
			want.key = append(want.key, tsKey(wt.NewTimeSeries(ts0.FromTime(), ts0.UntilTime(), ts0.Step(), vals), nil))
		}
	}
	G := 2 + r.Intn(5)
	var wg sync.WaitGroup
	var mu sync.Mutex
	var bads []string
	var calls int64
	holdDone := make(chan struct{})
	// force out-of-order completion: hold the flock of the first file for a few ms
	go func() {
		defer close(holdDone)
		for k := 0; k < 3; k++ {
			h, err := wt.Open(filepath.Join(base, item, names[0]))
			if err != nil {
				return
			}
			time.Sleep(time.Duration(2+r.Intn(6)) * time.Millisecond)
			h.Close()
			time.Sleep(time.Millisecond)
		}
	}()
	c.Count("sum_out_of_order_forced", 1)
	for g := 0; g < G; g++ {
		wg.Add(1)
		go func() {
			defer wg.Done()
			for k := 0; k < 4; k++ {
				h, tl, err := wcmd.VerifSumWhisperFile(base, item, "*.wsp", -1, u32(from), u32(until), u32(now))
				atomic.AddInt64(&calls, 1)
				msg := ""
				if err != nil {
					msg = "error: " + err.Error()
				} else if h.String() != want.hdr {
					msg = fmt.Sprintf("header is %q, the first file's is %q", h.String(), want.hdr)
				} else {
					for ai := range tl {
						if k := tsKey(tl[ai], nil); k != want.key[ai] {
							msg = fmt.Sprintf("archive %d differs from the left fold in glob order", ai)
							break
						}
					}
				}
				if msg != "" {
					mu.Lock()
					bads = append(bads, msg)
					mu.Unlock()
				}
			}
		}()
	}
	wg.Wait()
	<-holdDone
	c.Count("sum_trials", 1)
	c.Count("sum_concurrent_calls", calls)
	if G >= 2 {
		c.Count("max_in_flight_ge2", 1)
		c.Nontrivial("sum", c.Seed, c.Index)
	}
	if len(bads) > 0 {
		c.Violationf("concurrent-sum-differs", fw.J{"layout": l, "files": nf, "goroutines": G, "problems": bads[:minI(len(bads), 3)]},
			"sum over %d files while the first file was briefly locked: %s", nf, bads[0])
	}
	// error path: many unreadable files among good ones; the concurrent read must report the error a sequential read
	// reports, promptly (it must not hang)
	if c.Index%2 == 1 {
		bad := filepath.Join(base, "badgrp")
		mustMkdir(bad)
		for i := 0; i < 4; i++ {
			c17FillFile(r, filepath.Join(bad, fmt.Sprintf("g%02d.wsp", i)), l, now, true)
		}
		good := readFileOrNil(filepath.Join(bad, "g00.wsp"))
		for i := 0; i < 20+r.Intn(10); i++ {
			ioutil.WriteFile(filepath.Join(bad, fmt.Sprintf("t%02d.wsp", i)), good[:len(good)/2], 0644)
		}
		done := make(chan error, 1)
		go func() {
			_, _, err := wcmd.VerifSumWhisperFile(base, "badgrp", "*.wsp", -1, u32(from), u32(until), u32(now))
			done <- err
		}()
		select {
		case err := <-done:
			if err == nil {
				c.Violationf("sum-ignores-unreadable-files", fw.J{"files": "4 good + >=20 truncated"}, "sum over an item with truncated files succeeded")
			}
			c.Count("sum_error_path_trials", 1)
		case <-time.After(90 * time.Second):
			c.Violationf("concurrent-sum-hangs", fw.J{"files": "4 good + >=20 truncated"}, "sum over an item with many unreadable files did not return within 90 s (a sequential read reports the error at once)")
			return
		}
	}
	// the real CLI (errgroup reads of copy and diff) under the race detector
	bin := filepath.Join(c.Env.BuildDir, "whispertool-race")
	raceEnv := append(os.Environ(), "GORACE=halt_on_error=0 log_path="+filepath.Join(c.Env.Tmp, "..", "race"))
	destBase := filepath.Join(dir, "dest")
	li := l
	for _, args := range [][]string{
		{"copy", "-src-base", filepath.Join(base, item), "-src", "*.wsp", "-dest-base", destBase, "-agg-method", "sum", "-x-files-factor", "0", "-retentions", li.RetentionString(), "-text-out", ""},
		{"diff", "-src-base", filepath.Join(base, item), "-src", "*.wsp", "-dest-base", destBase, "-text-out", ""},
		{"sum", "-src-base", base, "-item", item, "-src", "*.wsp", "-text-out", ""},
	} {
		cmd := exec.Command(bin, args...)
		cmd.Env = raceEnv
		out, err := cmd.CombinedOutput()
		c.Count("cli_race_runs", 1)
		if ee, ok := err.(*exec.ExitError); ok && ee.ExitCode() == 66 {
			c.Violationf("race:cli:"+args[0], fw.J{"args": args, "out": truncStr(string(out), 2000)}, "the race detector reported in `whispertool %s`", args[0])
		}
		if bytes.Contains(out, []byte("panic:")) {
			c.Violationf("panic:cli:"+args[0], fw.J{"args": args, "out": truncStr(string(out), 2000)}, "`whispertool %s` panicked", args[0])
		}
	}
	c.Sample(fw.J{"kind": "sum", "layout": l.String(), "files": nf, "goroutines": G})
}

// ---- (C) the real server under parallel clients
func freePort() int {
	ln, err := net.Listen("tcp", "127.0.0.1:0")
	if err != nil {
		panic(err)
	}
	defer ln.Close()
	return ln.Addr().(*net.TCPAddr).Port
}

// startServer launches the whispertool server binary and waits until it accepts connections.
func startServer(bin, base string, env []string) (*exec.Cmd, string, *bytes.Buffer, error) {
	return startServerIn(bin, base, "", env)
}

// startServerIn starts the server with the given -base argument ("" = the flag's default) in working directory dir.
func startServerIn(bin, base, dir string, env []string) (*exec.Cmd, string, *bytes.Buffer, error) {
	for try := 0; try < 5; try++ {
		port := freePort()
		addr := fmt.Sprintf("127.0.0.1:%d", port)
		cmd := exec.Command(bin, "server", "-addr", addr, "-base", base)
		if base == "" {
			cmd = exec.Command(bin, "server", "-addr", addr)
		}
		cmd.Dir = dir
		var buf bytes.Buffer
		cmd.Stdout = &buf
		cmd.Stderr = &buf
		cmd.Env = env
		cmd.SysProcAttr = &syscall.SysProcAttr{Pdeathsig: syscall.SIGKILL}
		if strings.HasPrefix(dir, "uid65534:") {
			// run the server as an unprivileged user (the binary is copied to a place that user can reach)
			cmd.Dir = strings.TrimPrefix(dir, "uid65534:")
			cmd.SysProcAttr.Credential = &syscall.Credential{Uid: 65534, Gid: 65534}
		}
		if err := cmd.Start(); err != nil {
			return nil, "", nil, err
		}
		ok := false
		for i := 0; i < 400; i++ {
			conn, err := net.DialTimeout("tcp", addr, 100*time.Millisecond)
			if err == nil {
				conn.Close()
				ok = true
				break
			}
			time.Sleep(10 * time.Millisecond)
		}
		if ok {
			// the port answered - but is it OUR child? Another worker may have bound the port between freePort() and the
			// child's listen; then the child has exited ("address already in use") and the answer came from a stranger
			time.Sleep(30 * time.Millisecond)
			var ws syscall.WaitStatus
			if pid, err := syscall.Wait4(cmd.Process.Pid, &ws, syscall.WNOHANG, nil); err == nil && pid == cmd.Process.Pid {
				continue // the child is gone: try another port
			}
			return cmd, "http://" + addr, &buf, nil
		}
		cmd.Process.Kill()
		cmd.Wait()
	}
	return nil, "", nil, fmt.Errorf("server did not start")
}

func stopServer(cmd *exec.Cmd) {
	if cmd == nil || cmd.Process == nil {
		return
	}
	cmd.Process.Signal(syscall.SIGTERM)
	done := make(chan struct{})
	go func() { cmd.Wait(); close(done) }()
	select {
	case <-done:
	case <-time.After(3 * time.Second):
		cmd.Process.Kill()
		<-done
	}
}

func httpGet(client *http.Client, u string) (int, []byte, string, error) {
	resp, err := client.Get(u)
	if err != nil {
		return 0, nil, "", err
	}
	defer resp.Body.Close()
	b, err := ioutil.ReadAll(resp.Body)
	return resp.StatusCode, b, resp.Header.Get("X-Op") + "|" + resp.Header.Get("X-Path"), err
}

func c17Server(c *fw.Ctx) {
	r := c.Rng
	dir := c.TmpDir()
	base := filepath.Join(dir, "served")
	now := int64(1700000000 + r.Intn(1000000))
	l := genLayout(r, layoutOpts{minArch: 1, maxArch: 3, maxPoints0: 4000, multiPage: true, smallRatios: true})
	c17Sparse = c.Index%2 == 0
	defer func() { c17Sparse = false }()
	if c17Sparse {
		c.Count("trials_with_never_written_archives", 1)
	}
	items := []string{"a", "b", filepath.Join("n", "x")}
	var files []string
	{
		// a completely never-written file, viewed before and after sums
		mustMkdir(filepath.Join(base, "fresh"))
		db, err := createFile(filepath.Join(base, "fresh", "f.wsp"), l)
		if err != nil {
			panic(err)
		}
		db.Sync()
		db.Close()
	}
	for _, it := range items {
		mustMkdir(filepath.Join(base, it))
		for i := 0; i < 2+r.Intn(3); i++ {
			rel := filepath.Join(it, fmt.Sprintf("m%d.wsp", i))
			c17FillFile(r, filepath.Join(base, rel), l, now, false)
			files = append(files, rel)
		}
	}
	bin := filepath.Join(c.Env.BuildDir, "whispertool-race")
	env := append(os.Environ(), "GORACE=halt_on_error=0 log_path="+filepath.Join(c.Env.Tmp, "..", "race"))
	srv, baseURL, srvOut, err := startServer(bin, base, env)
	if err != nil {
		c.Inconclusive("cannot start the race-built server: " + err.Error())
		return
	}
	defer stopServer(srv)
	ts := func(t int64) string { return url.QueryEscape(wt.Timestamp(t).String()) }
	var urls []string
	var kinds []string
	add := func(kind, u string) { urls = append(urls, baseURL+u); kinds = append(kinds, kind) }
	// views of the never-written file come FIRST in the sequential reference pass (before any sum ran in the server)
	for a := -1; a < len(l.Archs); a++ {
		add("view", fmt.Sprintf("/view?file=%s&retention=%d&from=%s&until=%s&now=%s", url.QueryEscape("fresh/f.wsp"), a, ts(now-l.MaxRet()), ts(now), ts(now)))
	}
	for i := 0; i < 40; i++ {
		f := files[r.Intn(len(files))]
		if r.Intn(3) == 0 {
			f = files[0] // same file from many clients
		}
		a := r.Intn(len(l.Archs)+1) - 1
		from := now - r.Int63n(l.MaxRet()+1)
		until := from + r.Int63n(now-from+1)
		switch r.Intn(5) {
		case 0:
			add("view", fmt.Sprintf("/view?file=%s&retention=%d&from=%s&until=%s&now=%s", url.QueryEscape(f), a, ts(from), ts(until), ts(now)))
		case 1:
			add("view_raw", fmt.Sprintf("/view-raw?file=%s&retention=%d", url.QueryEscape(f), a))
		case 2:
			it := []string{"a", "b", "n.x"}[r.Intn(3)]
			add("sum", fmt.Sprintf("/sum?item=%s&pattern=%s&retention=%d&from=%s&until=%s&now=%s", it, url.QueryEscape("*.wsp"), a, ts(from), ts(until), ts(now)))
		case 3:
			add("items", "/items?pattern="+url.QueryEscape([]string{"*", "n/*", "zz*"}[r.Intn(3)]))
		default:
			add("files", "/files?pattern="+url.QueryEscape([]string{"*/*.wsp", "a/*.wsp", "n/x/m0.wsp", "q/*.wsp"}[r.Intn(4)]))
		}
	}
	// failing requests of several kinds on the same endpoints (each answered with ITS error, also when others fail at
	// the same moment)
	ioutil.WriteFile(filepath.Join(base, "garbage.wsp"), bytes.Repeat([]byte("not a whisper file "), 20), 0644)
	for k := 0; k < 6; k++ {
		f := files[r.Intn(len(files))]
		add("view", fmt.Sprintf("/view?file=%s&retention=abc&from=%s&until=%s&now=%s", url.QueryEscape(f), ts(now-10), ts(now), ts(now)))
		add("view", fmt.Sprintf("/view?file=%s&retention=-1&from=%s&until=%s&now=%s", url.QueryEscape("garbage.wsp"), ts(now-10), ts(now), ts(now)))
		add("view", fmt.Sprintf("/view?file=%s&retention=-1&from=%s&until=%s&now=%s", url.QueryEscape(fmt.Sprintf("nothing-%d.wsp", k)), ts(now-10), ts(now), ts(now)))
		add("view_raw", fmt.Sprintf("/view-raw?file=%s&retention=%d", url.QueryEscape(f), len(l.Archs)+3+k))
		add("sum", fmt.Sprintf("/sum?item=a&pattern=%s&retention=x%d&from=%s&until=%s&now=%s", url.QueryEscape("*.wsp"), k, ts(now-10), ts(now), ts(now)))
	}
	c.Count("failing_requests_in_the_parallel_mix", 30)
	// requests that differ ONLY in the client's clock (windows clamped by now): each must be answered for its own clock
	for i := 0; i < 6; i++ {
		f := files[r.Intn(len(files))]
		a := l.Archs[r.Intn(len(l.Archs))]
		from := now - a.Ret() - int64(r.Intn(50)) // clamped by now-retention
		until := now + 500                        // clamped by now
		it := []string{"a", "b", "n.x"}[r.Intn(3)]
		for _, dn := range []int64{0, int64(a.Step) * 3, int64(a.Step)*7 + 1} {
			if i%2 == 0 {
				add("sum", fmt.Sprintf("/sum?item=%s&pattern=%s&retention=-1&from=%s&until=%s&now=%s", it, url.QueryEscape("*.wsp"), ts(from), ts(until), ts(now+dn)))
			} else {
				add("view", fmt.Sprintf("/view?file=%s&retention=-1&from=%s&until=%s&now=%s", url.QueryEscape(f), ts(from), ts(until), ts(now+dn)))
			}
		}
	}
	c.Count("requests_differing_only_in_clock", 18)
	client := &http.Client{Timeout: 60 * time.Second, Transport: &http.Transport{MaxIdleConnsPerHost: 64}}
	type resp struct {
		code int
		body []byte
		hdr  string
	}
	want := make([]resp, len(urls))
	for i, u := range urls {
		code, b, h, err := httpGet(client, u)
		if err != nil {
			c.Violationf("server-request-failed", fw.J{"url": u, "err": err.Error(), "server_output": truncStr(srvOut.String(), 2000)}, "sequential request failed: %v", err)
			return
		}
		want[i] = resp{code, b, h}
		c.Count("endpoint_"+kinds[i], 1)
	}
	P := 8 + r.Intn(57)
	var wg sync.WaitGroup
	var mu sync.Mutex
	var bads []string
	var n int64
	var inflight, maxInflight int64
	start := make(chan struct{})
	for p := 0; p < P; p++ {
		order := r.Perm(len(urls))
		wg.Add(1)
		go func(order []int) {
			defer wg.Done()
			<-start
			for _, i := range order[:16] {
				k := atomic.AddInt64(&inflight, 1)
				for {
					m := atomic.LoadInt64(&maxInflight)
					if k <= m || atomic.CompareAndSwapInt64(&maxInflight, m, k) {
						break
					}
				}
				code, b, h, err := httpGet(client, urls[i])
				atomic.AddInt64(&inflight, -1)
				atomic.AddInt64(&n, 1)
				msg := ""
				if err != nil {
					msg = fmt.Sprintf("%s: %v", urls[i], err)
				} else if code != want[i].code || h != want[i].hdr || !bytes.Equal(b, want[i].body) {
					msg = fmt.Sprintf("%s: status %d (alone %d), %d bytes (alone %d), first difference at byte %d", urls[i], code, want[i].code, len(b), len(want[i].body), firstDiff(b, want[i].body))
				}
				if msg != "" {
					mu.Lock()
					bads = append(bads, msg)
					mu.Unlock()
				}
			}
		}(order)
	}
	// meanwhile another handle holds one served file for more than a second: requests for it must wait, not fail
	holdDone := make(chan struct{})
	go func() {
		defer close(holdDone)
		<-start
		if h, err := wt.Open(filepath.Join(base, files[0])); err == nil {
			time.Sleep(time.Duration(1300+r.Intn(500)) * time.Millisecond)
			h.Close()
			c.Count("served_file_locked_over_1s", 1)
		}
	}()
	close(start)
	wg.Wait()
	<-holdDone
	c.Count("server_trials", 1)
	c.Count("server_concurrent_requests", n)
	if maxInflight >= 2 {
		c.Count("max_in_flight_ge2", 1)
		c.Nontrivial("server", c.Seed, c.Index)
	}
	if len(bads) > 0 {
		c.Violationf("concurrent-response-differs", fw.J{"clients": P, "problems": bads[:minI(len(bads), 4)], "layout": l},
			"with %d parallel clients a response differs from the same request served alone: %s", P, bads[0])
	}
	// many more clients than any plausible pool or limit: 90 requests for one file that a writer holds for a second and
	// a half (so all of them are in their handlers at once), plus one request per other endpoint meanwhile; each is
	// answered with what it returns when executed alone
	if !c.Violated() && c.Index%2 == 0 {
		f := files[0]
		busy := baseURL + fmt.Sprintf("/view?file=%s&retention=-1&from=%s&until=%s&now=%s", url.QueryEscape(f), ts(now-l.MaxRet()), ts(now), ts(now))
		others := []string{
			baseURL + fmt.Sprintf("/view-raw?file=%s&retention=-1", url.QueryEscape(files[len(files)-1])),
			baseURL + "/items?pattern=" + url.QueryEscape("*"),
			baseURL + "/files?pattern=" + url.QueryEscape("*/*.wsp"),
			baseURL + fmt.Sprintf("/sum?item=b&pattern=%s&retention=-1&from=%s&until=%s&now=%s", url.QueryEscape("*.wsp"), ts(now-l.MaxRet()), ts(now), ts(now)),
		}
		many := &http.Client{Timeout: 90 * time.Second, Transport: &http.Transport{MaxIdleConnsPerHost: 128}}
		refCode, refBody, _, rerr := httpGet(many, busy)
		type rr struct {
			code int
			body []byte
		}
		oref := make([]rr, len(others))
		for i, u := range others {
			cd, b, _, _ := httpGet(many, u)
			oref[i] = rr{cd, b}
		}
		if h, err := wt.Open(filepath.Join(base, f)); err == nil && rerr == nil {
			var wg2 sync.WaitGroup
			var mu2 sync.Mutex
			var problems []string
			for k := 0; k < 90; k++ {
				wg2.Add(1)
				go func() {
					defer wg2.Done()
					cd, b, _, err := httpGet(many, busy)
					if err != nil || cd != refCode || !bytes.Equal(b, refBody) {
						mu2.Lock()
						problems = append(problems, fmt.Sprintf("view of the held file: status %d err %v (alone: status %d)", cd, err, refCode))
						mu2.Unlock()
					}
				}()
			}
			time.Sleep(400 * time.Millisecond)
			for i, u := range others {
				cd, b, _, err := httpGet(many, u)
				if err != nil || cd != oref[i].code || !bytes.Equal(b, oref[i].body) {
					mu2.Lock()
					problems = append(problems, fmt.Sprintf("%s while 90 requests wait for a held file: status %d err %v (alone: status %d)", u[len(baseURL):], cd, err, oref[i].code))
					mu2.Unlock()
				}
			}
			time.Sleep(time.Duration(600+r.Intn(500)) * time.Millisecond)
			h.Close()
			wg2.Wait()
			c.Count("trials_with_90_requests_in_their_handlers", 1)
			if len(problems) > 0 {
				c.Violationf("concurrent-response-differs", fw.J{"problems": problems[:minI(len(problems), 4)], "how_many": len(problems)},
					"with 90 requests in flight for a file held by a writer, %d responses differ from the same requests served alone: %s", len(problems), problems[0])
			}
		}
		many.CloseIdleConnections()
	}
	// a request that fails after its file was opened (an archive id the file does not have, from > until) must not keep
	// the file: the next request for the same file is answered, with what it returns when executed alone
	if !c.Violated() {
		f := files[0]
		good := baseURL + fmt.Sprintf("/view?file=%s&retention=-1&from=%s&until=%s&now=%s", url.QueryEscape(f), ts(now-l.MaxRet()), ts(now), ts(now))
		short := &http.Client{Timeout: 20 * time.Second}
		_, ref, _, rerr := httpGet(short, good)
		for _, badq := range []string{
			fmt.Sprintf("/view?file=%s&retention=%d&from=%s&until=%s&now=%s", url.QueryEscape(f), len(l.Archs)+2, ts(now-l.MaxRet()), ts(now), ts(now)),
			fmt.Sprintf("/view?file=%s&retention=0&from=%s&until=%s&now=%s", url.QueryEscape(f), ts(now-5), ts(now-50), ts(now)),
		} {
			if rerr != nil {
				break
			}
			bcode, _, _, _ := httpGet(short, baseURL+badq)
			if bcode < 400 {
				continue // not a failing request on this tree
			}
			_, again, _, err := httpGet(short, good)
			c.Count("requests_after_a_failed_request", 1)
			if err != nil {
				c.Violationf("request-after-failed-request-not-answered", fw.J{"failed_request": badq, "next_request": good, "err": err.Error()},
					"after a request for %s failed (status %d), the next request for the same file was not answered within 20 s: %v", f, bcode, err)
				break
			}
			if !bytes.Equal(again, ref) {
				c.Violationf("concurrent-response-differs", fw.J{"failed_request": badq, "next_request": good}, "the response for %s after a failed request differs from the one before it", f)
				break
			}
		}
	}
	stopServer(srv)
	out := srvOut.String()
	if bytes.Contains([]byte(out), []byte("panic serving")) || bytes.Contains([]byte(out), []byte("fatal error")) {
		c.Violationf("server-panic", fw.J{"server_output": truncStr(out, 3000)}, "the server panicked while serving parallel requests")
	}
	if bytes.Contains([]byte(out), []byte("WARNING: DATA RACE")) {
		c.Violationf("race:server", fw.J{"server_output": truncStr(out, 4000)}, "the race detector reported in the server")
	}
	_ = math.NaN
	c.Sample(fw.J{"kind": "server", "layout": l.String(), "clients": P, "urls": len(urls), "max_in_flight": maxInflight, "example_url": urls[0]})
}
