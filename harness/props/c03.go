package props

import (
	"io/ioutil"
	"math"
	"math/rand"
	"os"
	"sort"
	"time"

	wt "github.com/hnakamur/whispertool"

	"verifharness/fw"
	"verifharness/model"
)

// C03 Write acceptance and routing to the finest archive covering a point's age.

type c03 struct{}

func init() { fw.Register(c03{}) }

func (c03) Meta() fw.Meta {
	return fw.Meta{
		ID: "C03",
		Rule: "case = (layout, clock, short pre-history); (a) single updates at every boundary age {0,1,ret_i-1,ret_i,ret_i+1,maxRet-1,maxRet,maxRet+1,future} to best and to every named archive; " +
			"(b) batches of 0-200 points mixing in-range, exactly-boundary and too-old ages, duplicates of a timestamp, several timestamps of one slot, lap collisions, incl. directed shapes (one too-old point + fresh ones, only old, only fresh); " +
			"every batch is also applied, in a different supply order that keeps equal-timestamp points in order, to a byte-identical twin file. " +
			"oracle: acceptance iff now-maxRet < t <= now; accepted single sits in the ring slot of the finest archive with ret >= age (or the named one); rejected update leaves all bytes identical; " +
			"batch: target ring == ring before + exactly the points younger than the archive's retention, last (timestamp, supply index) wins per slot; twin files end bit-identical. " +
			"non-trivial = case saw an accept and a reject at a boundary and a batch that dropped at least one and stored at least one point; distinct by (layout, clock, ops)." +
			" Odd cases write NaN payloads and infinities as values (a supplied point is stored whatever it carries)." +
			" Also: an identical single update resent after the clock moved past the finest retention (it belongs to the coarser archive then); every 5th case replaces the file by one of another layout (rename) and requires a new handle to accept and route by the new layout." +
			" Every 5th case adds batch points ahead of the clock (stored: they are younger than every retention).",
		Assumptions: []string{
			"clock domain: maxRetention + 2*maxStep <= now and now + 2*maxStep < 2^32",
			"'supplied last' = greatest (timestamp, supply index) among the points of one slot (batches are time-ordered first; DESIGN.md section 1.5)",
			"points stamped after the clock: every 5th case adds batch points up to 4 s ahead (2*maxStep-1 at most, to stay inside the clock domain); being younger than every retention they are stored, in the finest (or the named) archive",
		},
		Obligations: []string{"single_accept_at_boundary", "single_reject_at_boundary", "single_reject_future", "batch_one_stale_plus_fresh", "batch_only_old", "batch_equal_timestamp_dups", "batch_multi_ts_same_slot", "batch_lap_collision", "batch_dropped_points", "batch_stored_points", "permutation_twins_compared", "best_routed_to_coarser", "empty_batch", "wrapper_update_calls", "wrapper_updatemany_calls", "batch_ancient_points", "batch_nan_valued_points_stored", "identical_update_resent_after_clock_advance", "files_replaced_by_another_layout"},
	}
}

func (c03) Cases(tier string) int {
	if tier == "thorough" {
		return 300000
	}
	return 1500
}

// orderPreservingPermutation shuffles pts but keeps points with equal timestamps in their relative order.
func orderPreservingPermutation(r *rand.Rand, pts []model.PtBits) []model.PtBits {
	idx := r.Perm(len(pts))
	out := make([]model.PtBits, len(pts))
	// positions are permuted; then, per timestamp, the original sequence is re-imposed on the chosen positions
	for i, j := range idx {
		out[i] = pts[j]
	}
	byT := map[uint32][]int{}
	for i, p := range out {
		byT[p.T] = append(byT[p.T], i)
	}
	orig := map[uint32][]model.PtBits{}
	for _, p := range pts {
		orig[p.T] = append(orig[p.T], p)
	}
	for t, pos := range byT {
		sort.Ints(pos)
		for k, i := range pos {
			out[i] = orig[t][k]
		}
	}
	return out
}

func (c03) Run(c *fw.Ctx) {
	r := c.Rng
	l := genLayout(r, layoutOpts{maxPoints0: 600})
	now := genClock(r, l)
	k := len(l.Archs)
	s, err := newSession(c, l, now, "c03.wsp")
	if err != nil {
		c.Violationf("create-failed", fw.J{"layout": l, "err": err.Error()}, "Create failed: %v", err)
		return
	}
	defer s.close()
	var ops []Op
	// short pre-history so that rings are not empty (sometimes none)
	for i := r.Intn(6); i > 0; i-- {
		op := genOp(r, l, s.now, histOpts{noReopen: true})
		if op.Kind == "single" || op.Kind == "batch" {
			if err := s.apply(op); err != nil {
				c.Violationf("write-error", fw.J{"layout": l, "op": op, "err": err.Error()}, "in-range write failed: %v", err)
				return
			}
			ops = append(ops, op)
		}
	}
	if s.raw, err = rawOf(s.db); err != nil {
		panic(err)
	}
	sawAcc, sawRej, sawDrop, sawStore := false, false, false, false

	hostile := c.Index%2 == 1 // NaN payloads and infinities are values like any other: a supplied point is stored whatever it carries
	// ---- (a) single updates across every boundary
	ages := []int64{0, 1, l.MaxRet() - 1, l.MaxRet(), l.MaxRet() + 1, -1}
	for _, a := range l.Archs {
		ages = append(ages, a.Ret()-1, a.Ret(), a.Ret()+1)
	}
	targets := []int{-1}
	for i := 0; i < k; i++ {
		targets = append(targets, i)
	}
	for _, age := range ages {
		for _, tg := range targets {
			t := s.now - age
			if t < 1 {
				continue
			}
			bits := genValueBits(r, hostile)
			pre := s.raw
			var err error
			if tg == -1 && r.Intn(2) == 0 {
				// the Update() convenience wrapper reads the library's settable clock
				n := s.now
				wt.Now = func() time.Time { return time.Unix(n, 0) }
				err = s.db.Update(u32(t), wt.Value(math.Float64frombits(bits)))
				wt.Now = time.Now
				c.Count("wrapper_update_calls", 1)
			} else {
				err = s.db.UpdatePointForArchive(tg, u32(t), wt.Value(math.Float64frombits(bits)), u32(s.now))
			}
			post, rerr := rawOf(s.db)
			if rerr != nil {
				panic(rerr)
			}
			s.raw = post
			wantAccept := age >= 0 && age < l.MaxRet()
			detail := fw.J{"layout": l, "now": s.now, "t": t, "age": age, "target": tg, "pre_ops": ops}
			if (err == nil) != wantAccept {
				c.Violationf("single-acceptance", detail, "single update age %d (maxRet %d) target %d: err=%v, want accepted=%v", age, l.MaxRet(), tg, err, wantAccept)
				return
			}
			if !wantAccept {
				if age < 0 {
					c.Count("single_reject_future", 1)
				} else {
					c.Count("single_reject_at_boundary", 1)
				}
				sawRej = true
				for i := range post {
					if d := model.EqualSlots(pre[i], post[i]); d >= 0 {
						c.Violationf("rejected-update-left-trace", detail, "rejected single update changed archive %d slot %d", i, d)
						return
					}
				}
				continue
			}
			sawAcc = true
			c.Count("single_accept_at_boundary", 1)
			target := tg
			if target < 0 {
				target = model.BestArchive(l, t, s.now)
				if target > 0 {
					c.Count("best_routed_to_coarser", 1)
				}
			}
			exp := append([]model.Slot(nil), pre[target]...)
			model.RingWrite(exp, l.Archs[target], model.AlignDown(t, l.Archs[target].Step), bits)
			if d := model.EqualSlots(exp, post[target]); d >= 0 {
				c.Violationf("single-routing", detail, "single update age %d: archive %d slot %d holds %v, want %v (finest archive with ret >= age is %d)", age, target, d, post[target][d], exp[d], target)
				return
			}
			for i := 0; i < target; i++ {
				if d := model.EqualSlots(pre[i], post[i]); d >= 0 {
					c.Violationf("single-diverted-to-finer", detail, "single update age %d routed to archive %d also changed finer archive %d slot %d", age, target, i, d)
					return
				}
			}
		}
	}

	// ---- (a2) the same update sent again after the clock moved on: routing is decided by the age AT THE CALL, so the
	// resent point (now older than the finest retention) belongs to the coarser archive
	if k >= 2 && !c.Violated() {
		a0 := l.Archs[0]
		t := s.now - int64(r.Intn(int(minI64(a0.Ret()-1, 5))+1))
		v := wt.Value(31337.5 + float64(r.Intn(100)))
		if err := s.db.UpdatePointForArchive(-1, u32(t), v, u32(s.now)); err != nil {
			c.Violationf("single-acceptance", fw.J{"layout": l, "now": s.now, "t": t}, "fresh update rejected: %v", err)
			return
		}
		later := s.now + a0.Ret() + int64(r.Intn(int(a0.Step)*3+1))
		if later-t < l.MaxRet() && later+2*l.MaxStep() < 1<<32 {
			pre, _ := rawOf(s.db)
			err := s.db.UpdatePointForArchive(-1, u32(t), v, u32(later))
			post, _ := rawOf(s.db)
			target := model.BestArchive(l, t, later)
			c.Count("identical_update_resent_after_clock_advance", 1)
			if err != nil {
				c.Violationf("single-acceptance", fw.J{"layout": l, "now": later, "t": t, "err": err.Error()}, "the resent in-range update (age %d) was rejected: %v", later-t, err)
				return
			}
			exp := append([]model.Slot(nil), pre[target]...)
			model.RingWrite(exp, l.Archs[target], model.AlignDown(t, l.Archs[target].Step), math.Float64bits(float64(v)))
			if d := model.EqualSlots(exp, post[target]); d >= 0 {
				c.Violationf("single-routing", fw.J{"layout": l, "first_clock": s.now, "second_clock": later, "t": t, "target": target, "slot": d, "want": exp[d], "got": post[target][d]},
					"update (t=%d) sent at clock %d and again, unchanged, at clock %d (age %d > finest retention): archive %d slot %d holds %v, want %v", t, s.now, later, later-t, target, d, post[target][d], exp[d])
				return
			}
			s.now = later
			s.raw = post
		} else {
			s.raw, _ = rawOf(s.db)
		}
	}
	// ---- (a3) the file at this path is replaced (rename) by one with another layout: a handle opened afterwards
	// accepts and routes by the layout of the file that is there now
	if c.Index%5 == 2 && !c.Violated() {
		if !c03Replaced(c, l, s.now) {
			return
		}
	}

	// ---- (b) batches
	nb := 6
	for b := 0; b < nb && !c.Violated(); b++ {
		named := -1
		if r.Intn(3) != 0 {
			named = r.Intn(k)
		}
		retT := l.MaxRet()
		ar := l.Archs[r.Intn(k)]
		if named >= 0 {
			ar = l.Archs[named]
			retT = ar.Ret()
		}
		var pts []model.PtBits
		fresh := func(n int) {
			for i := 0; i < n; i++ {
				pts = append(pts, model.PtBits{T: uint32(inRangeTime(r, s.now, retT)), Bits: genValueBits(r, hostile)})
			}
		}
		old := func(n int) {
			for i := 0; i < n; i++ {
				var t int64
				switch r.Intn(4) {
				case 0:
					t = s.now - retT
				case 1:
					t = s.now - retT - 1
				case 2:
					// ancient: more than 2^31 seconds before the clock (possible once the clock is past 2038)
					if s.now > 1<<31+1000 {
						t = 1 + r.Int63n(s.now-1<<31-1)
						c.Count("batch_ancient_points", 1)
						break
					}
					fallthrough
				default:
					t = s.now - retT - r.Int63n(l.MaxRet()+int64(l.MaxStep()))
				}
				if t >= 1 {
					pts = append(pts, model.PtBits{T: uint32(t), Bits: genValueBits(r, hostile)})
				}
			}
		}
		shape := b
		if b >= 4 {
			shape = 4 + r.Intn(3)
		}
		switch shape {
		case 0: // exactly one too-old point followed by fresh ones
			old(1)
			fresh(2 + r.Intn(5))
			if len(pts) > 1 && int64(pts[0].T) <= s.now-retT {
				c.Count("batch_one_stale_plus_fresh", 1)
			}
		case 1: // only old
			old(1 + r.Intn(4))
			c.Count("batch_only_old", 1)
		case 2: // only fresh, with duplicates and same-slot timestamps
			fresh(1 + r.Intn(20))
			p := pts[r.Intn(len(pts))]
			pts = append(pts, model.PtBits{T: p.T, Bits: genValueBits(r, hostile)}, model.PtBits{T: p.T, Bits: genValueBits(r, hostile)})
			c.Count("batch_equal_timestamp_dups", 1)
			al := model.AlignDown(int64(p.T), ar.Step)
			if ar.Step > 1 {
				for j := 0; j < 3; j++ {
					t := al + r.Int63n(int64(ar.Step))
					if t <= s.now && t > s.now-retT {
						pts = append(pts, model.PtBits{T: uint32(t), Bits: genValueBits(r, hostile)})
						c.Count("batch_multi_ts_same_slot", 1)
					}
				}
			}
		case 3: // lap collision inside the N+1-interval window of a named archive
			if named < 0 {
				named = r.Intn(k)
				ar = l.Archs[named]
				retT = ar.Ret()
			}
			fresh(r.Intn(4))
			lo := s.now - retT + 1
			hiT := model.AlignDown(lo, ar.Step) + retT
			if hiT <= s.now {
				pts = append(pts, model.PtBits{T: uint32(lo), Bits: genValueBits(r, hostile)}, model.PtBits{T: uint32(hiT), Bits: genValueBits(r, hostile)})
				c.Count("batch_lap_collision", 1)
			}
		case 4: // empty
			c.Count("empty_batch", 1)
		default:
			op := genOp(r, l, s.now, histOpts{tooOld: true, maxBatch: 200, futureBatch: c.Index%5 == 1})
			for op.Kind != "batch" {
				op = genOp(r, l, s.now, histOpts{tooOld: true, maxBatch: 200, futureBatch: c.Index%5 == 1})
			}
			named = op.Arch
			pts = op.Pts
		}
		if shape != 5 && shape != 6 {
			r.Shuffle(len(pts), func(i, j int) { pts[i], pts[j] = pts[j], pts[i] })
		}

		// twin file with identical bytes
		if err := s.db.Sync(); err != nil {
			panic(err)
		}
		img, err := ioutil.ReadFile(s.path)
		if err != nil {
			panic(err)
		}
		twinPath := joinTmp(c.TmpDir(), "twin.wsp")
		if err := ioutil.WriteFile(twinPath, img, 0644); err != nil {
			panic(err)
		}
		twin, err := wt.Open(twinPath)
		if err != nil {
			c.Violationf("open-failed", fw.J{"err": err.Error()}, "Open of a synced file failed: %v", err)
			return
		}

		pre := s.raw
		op := Op{Kind: "batch", Arch: named, Pts: pts, Now: s.now}
		detail := fw.J{"layout": l, "now": s.now, "batch": op, "pre_ops": ops}
		if named == -1 && r.Intn(2) == 0 {
			n := s.now
			wt.Now = func() time.Time { return time.Unix(n, 0) }
			err = s.db.UpdateMany(toPoints(pts))
			wt.Now = time.Now
			c.Count("wrapper_updatemany_calls", 1)
		} else {
			err = s.db.UpdatePointsForArchive(toPoints(pts), named, u32(s.now))
		}
		if err != nil {
			c.Violationf("batch-error", detail, "batch update returned an error: %v", err)
			twin.Close()
			return
		}
		post, rerr := rawOf(s.db)
		if rerr != nil {
			panic(rerr)
		}
		s.raw = post
		ops = append(ops, op)

		routed := model.RouteBatch(l, pts, named, s.now)
		nrouted := 0
		first := -1
		for i := range routed {
			nrouted += len(routed[i])
			if len(routed[i]) > 0 && first < 0 {
				first = i
			}
			if i > 0 && named < 0 && len(routed[i]) > 0 {
				c.Count("best_routed_to_coarser", 1)
			}
		}
		for i := range routed {
			for _, p := range routed[i] {
				if v := math.Float64frombits(p.Bits); v != v {
					c.Count("batch_nan_valued_points_stored", 1)
				}
			}
		}
		c.Count("batch_stored_points", int64(nrouted))
		c.Count("batch_dropped_points", int64(len(pts)-nrouted))
		if nrouted > 0 {
			sawStore = true
		}
		if len(pts)-nrouted > 0 {
			sawDrop = true
		}
		for i := range l.Archs {
			if len(routed[i]) == 0 {
				if first < 0 || i < first {
					if d := model.EqualSlots(pre[i], post[i]); d >= 0 {
						c.Violationf("batch-trace-in-untargeted-archive", detail, "batch (named=%d) changed archive %d slot %d (%v -> %v) although no point is routed to it or a finer archive", named, i, d, pre[i][d], post[i][d])
					}
				}
				continue
			}
			exp := append([]model.Slot(nil), pre[i]...)
			if i != first {
				exp = append([]model.Slot(nil), post[i]...)
			}
			model.ApplyDirect(exp, l.Archs[i], routed[i])
			if d := model.EqualSlots(exp, post[i]); d >= 0 {
				key := "batch-routing"
				// classify: is an in-range point missing, or a too-old point stored?
				c.Violationf(key, fw.J{"layout": l, "now": s.now, "batch": op, "pre_ops": ops[:len(ops)-1], "archive": i, "slot": d, "want": exp[d], "got": post[i][d]},
					"batch (named=%d, %d points, %d routed to archive %d): slot %d holds %v, want %v", named, len(pts), len(routed[i]), i, d, post[i][d], exp[d])
			}
		}

		// permutation twin
		perm := orderPreservingPermutation(r, pts)
		if err := twin.UpdatePointsForArchive(toPoints(perm), named, u32(s.now)); err != nil {
			c.Violationf("batch-error", detail, "batch update (permuted) returned an error: %v", err)
			twin.Close()
			return
		}
		traw, rerr := rawOf(twin)
		twin.Close()
		if rerr != nil {
			panic(rerr)
		}
		c.Count("permutation_twins_compared", 1)
		for i := range post {
			if d := model.EqualSlots(post[i], traw[i]); d >= 0 {
				c.Violationf("batch-order-dependence", fw.J{"layout": l, "now": s.now, "batch": op, "permuted": perm, "archive": i, "slot": d, "a": post[i][d], "b": traw[i][d]},
					"same multiset, supply order differing only between distinct timestamps: archive %d slot %d is %v vs %v", i, d, post[i][d], traw[i][d])
				break
			}
		}
	}
	if sawAcc && sawRej && sawDrop && sawStore {
		c.Nontrivial(l.String(), now, fw.JSON(ops))
	}
	if c.Index < 64 {
		c.Sample(fw.J{"layout": l.String(), "clock": now, "single_ages": ages, "ops": summarizeOps(ops, 8)})
	}
}

func c03Replaced(c *fw.Ctx, l1 model.Layout, now int64) bool {
	r := c.Rng
	p := joinTmp(c.TmpDir(), "replaced.wsp")
	db, err := createFile(p, l1)
	if err != nil {
		panic(err)
	}
	db.UpdatePointForArchive(-1, u32(now), 1, u32(now))
	db.Sync()
	db.Close()
	if h, err := wt.Open(p); err == nil { // the path has been opened before in this process
		h.Close()
	}
	// another layout: finest step kept, retentions stretched
	l2 := model.Layout{Method: l1.Method, Xff: l1.Xff}
	for _, a := range l1.Archs {
		l2.Archs = append(l2.Archs, model.Arch{Step: a.Step, Points: a.Points*2 + 1})
	}
	if v, _ := model.ValidLayout(l2.Archs); v != model.Valid || now < l2.MaxRet()+2*l2.MaxStep() {
		return true
	}
	tmp := p + ".new"
	db2, err := createFile(tmp, l2)
	if err != nil {
		return true
	}
	db2.Sync()
	db2.Close()
	if err := os.Rename(tmp, p); err != nil {
		panic(err)
	}
	h, err := wt.Open(p)
	if err != nil {
		c.Violationf("open-failed", fw.J{"err": err.Error()}, "Open of the replacing file failed: %v", err)
		return false
	}
	defer h.Close()
	c.Count("files_replaced_by_another_layout", 1)
	if int64(h.Header().MaxRetention()) != l2.MaxRet() || len(h.ArchiveInfoList()) != len(l2.Archs) || h.ArchiveInfoList()[0].NumberOfPoints() != l2.Archs[0].Points {
		c.Violationf("handle-uses-replaced-files-layout", fw.J{"old": l1.String(), "new": l2.String(), "handle": h.Header().String()}, "a handle opened after the file was replaced reports the layout %s, the file has %s", h.Header().String(), l2.String())
		return false
	}
	// an age between the old and the new maximum retention is in range now
	age := l1.MaxRet() + r.Int63n(l2.MaxRet()-l1.MaxRet())
	t := now - age
	if err := h.UpdatePointForArchive(-1, u32(t), 5.5, u32(now)); err != nil {
		c.Violationf("single-acceptance", fw.J{"old": l1.String(), "new": l2.String(), "age": age, "err": err.Error()}, "after the file was replaced (maximum retention %d -> %d) a point of age %d was rejected: %v", l1.MaxRet(), l2.MaxRet(), age, err)
		return false
	}
	raw, _ := rawOf(h)
	target := model.BestArchive(l2, t, now)
	idx := model.SlotIndex(raw[target][0].T, model.AlignDown(t, l2.Archs[target].Step), l2.Archs[target])
	if int64(raw[target][idx].T) != model.AlignDown(t, l2.Archs[target].Step) || math.Float64frombits(raw[target][idx].Bits) != 5.5 {
		c.Violationf("single-routing", fw.J{"old": l1.String(), "new": l2.String(), "age": age, "target": target}, "after the file was replaced a point of age %d is not in archive %d of the new layout", age, target)
		return false
	}
	return true
}
