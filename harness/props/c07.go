package props

import (
	"bytes"
	"fmt"
	"io/ioutil"
	"math"
	"math/big"
	"os"
	"os/exec"
	"path/filepath"
	"strconv"
	"strings"

	wt "github.com/hnakamur/whispertool"

	"verifharness/fw"
	"verifharness/model"
)

// C07 Layout validation: exactly the well-formed archive lists are accepted.

type c07 struct{}

func init() { fw.Register(c07{}) }

func (c07) Meta() fw.Meta {
	return fw.Meta{
		ID: "C07",
		Rule: "case = batch of 40 candidates (method, xFilesFactor, archive list): valid lists; lists broken in exactly one rule at its boundary (equal steps, archives out of order, non-dividing step, equal/shorter retention, ratio-1 points, zero step/points, empty list); " +
			"32-bit overflow families (sizes/offsets beyond 2^32, wrapping consistently; total sizes within a few slots of 2^32 bytes; retentions beyond 2^31; steps beyond 2^31); methods 0..9; xFilesFactor over float32 bit-pattern classes (+-0, denormals, 1, next after 1, -eps, +-Inf, NaNs). " +
			"Each candidate goes to NewHeader, Create (size <= 64 MiB), ParseArchiveInfoList (when expressible), Header.TakeFrom and Open of a sparse file carrying the format-prescribed header, and (sampled) the CLI flags through the real binary; " +
			"all must agree with the predicate valid() written from the statement; accepted ones are created, synced, reopened and compared field by field with the bytes on disk. " +
			"non-trivial = batch contained accepted and rejected candidates in every entry point; distinct by candidate set." +
			" NewHeader/Create also receive the candidate list by other routes (prefix of a longer parsed list, parsed list extended, list of a header built before, backing array used by a shorter header); Header.TakeFrom also decodes into a receiver used for every earlier candidate." +
			" Every 4th accepted header is also opened from a file padded beyond the size the layout needs; after every 2nd Create the caller reuses and overwrites its own slice before Sync and reopen." +
			" Candidates include valid lists of 17-30 archives; after every rejected Create a well-formed layout is created at the same path at once.",
		Assumptions: []string{
			"a file of exactly 2^32 bytes (slots addressable, size needs 33 bits) is the only undecided value (counted as band_dontcare); larger files are invalid because slot offsets are computed in the format's 32-bit offset arithmetic",
			"Open/TakeFrom are given headers with the offsets the format prescribes (low 32 bits when the true offset overflows)",
			"CLI flag agreement is sampled (real process per invocation), not run for every candidate",
		},
		Obligations: []string{"newheader_accept", "newheader_reject", "create_accept", "create_reject", "parse_accept", "parse_reject", "takefrom_accept", "takefrom_reject", "open_accept", "open_reject", "cli_accept", "cli_reject",
			"reject_equal_steps", "reject_out_of_order", "reject_size_beyond_4GiB", "reject_nondividing", "reject_equal_retention", "reject_too_few_points", "reject_zero", "reject_empty", "reject_overflow_offset", "reject_overflow_retention", "reject_method", "reject_xff_nan", "reject_xff_range", "accept_xff_negzero", "reopen_header_equal", "unit_retention_strings", "route_prefix-of-parsed-list", "route_parsed-list-extended", "route_header-list-extended", "route_header-list-cut", "route_backing-array-used-by-shorter-header", "takefrom_into_used_receiver", "open_of_padded_files", "caller_list_reused_after_create", "creates_after_a_rejected_create"},
	}
}

func (c07) Cases(tier string) int {
	if tier == "thorough" {
		return 50000
	}
	return 600
}

type c07cand struct {
	Method int64        `json:"method"`
	Xff    float32      `json:"-"`
	XffB   uint32       `json:"xff_bits"`
	Archs  []model.Arch `json:"archs"`
	Class  string       `json:"class"`
}

var xffPatterns = []uint32{
	0x00000000, 0x80000000, // +0, -0
	0x00000001, 0x80000001, // denormals
	0x3f800000, 0x3f800001, 0x3f7fffff, // 1, next after 1, just below 1
	0xbf800000, 0x33800000, 0xb3800000, // -1, eps, -eps
	0x7f800000, 0xff800000, // +-Inf
	0x7fc00000, 0xffc00000, 0x7f800001, 0x7fffffff, // NaNs
	0x3f000000, 0x3e800000, 0x40000000, // 0.5, 0.25, 2
}

func (c07) genCandidate(c *fw.Ctx, j int) c07cand {
	r := c.Rng
	base := genLayout(r, layoutOpts{minArch: 1, maxArch: 4, maxPoints0: 300})
	cd := c07cand{Method: int64(base.Method), Xff: base.Xff, Archs: append([]model.Arch(nil), base.Archs...), Class: "valid"}
	k := len(cd.Archs)
	i := 0
	if k > 1 {
		i = r.Intn(k - 1)
	}
	switch j % 20 { // (case 20 is only reached through the fallthrough of case 18)
	case 0, 1:
		// valid as generated
	case 2:
		// valid, with many archives (17-30 levels, each twice as coarse as the one before)
		if c.Index%2 == 0 {
			n := 17 + r.Intn(14)
			cd.Archs = cd.Archs[:0]
			for lvl := 0; lvl < n; lvl++ {
				cd.Archs = append(cd.Archs, model.Arch{Step: 1 << uint(lvl), Points: 3})
			}
			cd.Class = "valid"
		}
	case 3:
		if k > 1 {
			cd.Archs[i+1].Step = cd.Archs[i].Step
			cd.Class = "equal-steps"
		}
	case 4:
		if k > 1 && cd.Archs[i].Step > 1 {
			cd.Archs[i+1].Step++ // no longer a multiple
			cd.Class = "non-dividing"
		}
	case 5:
		if k > 1 {
			// retention of next equal to (or shorter than) this one
			ratio := cd.Archs[i+1].Step / cd.Archs[i].Step
			cd.Archs[i].Points = ratio * (1 + uint32(r.Intn(20)))
			cd.Archs[i+1].Points = cd.Archs[i].Points / ratio
			if r.Intn(2) == 0 && cd.Archs[i+1].Points > 1 {
				cd.Archs[i+1].Points--
				cd.Class = "shorter-retention"
			} else {
				cd.Class = "equal-retention"
			}
		}
	case 6:
		if k > 1 {
			ratio := cd.Archs[i+1].Step / cd.Archs[i].Step
			cd.Archs[i].Points = ratio - 1
			// keep retentions increasing so that only this rule is broken
			if cd.Archs[i].Points >= 1 {
				cd.Class = "too-few-points"
			} else {
				cd.Class = "zero-points"
			}
		}
	case 7:
		if r.Intn(2) == 0 {
			cd.Archs[r.Intn(k)].Step = 0
			cd.Class = "zero-step"
		} else {
			cd.Archs[r.Intn(k)].Points = 0
			cd.Class = "zero-points"
		}
	case 8:
		cd.Archs = nil
		cd.Class = "empty"
	case 9: // offsets/sizes beyond 32 bits
		switch r.Intn(4) {
		case 0:
			cd.Archs = []model.Arch{{Step: 1, Points: 630720000}} // 1s:20y, 7.5 GB
		case 1:
			cd.Archs = []model.Arch{{Step: 1, Points: 400000000}, {Step: 60, Points: 400000000}}
		case 2:
			// total wraps 2^32 consistently in a 32-bit offset computation
			cd.Archs = []model.Arch{{Step: 1, Points: 357913942}, {Step: 2, Points: 357913942}, {Step: 4, Points: 200000000}}
		default:
			cd.Archs = []model.Arch{{Step: 1, Points: uint32(357913900 + r.Intn(100))}, {Step: 3, Points: uint32(357913900 + r.Intn(100))}}
		}
		cd.Class = "overflow-offset"
	case 10: // retention beyond 31 bits
		switch r.Intn(3) {
		case 0:
			cd.Archs = []model.Arch{{Step: 86400, Points: uint32(24856 + r.Intn(3))}} // around 2^31
		case 1:
			cd.Archs = []model.Arch{{Step: 86400, Points: 60000}} // wraps int32 to a positive value
		default:
			cd.Archs = []model.Arch{{Step: 60, Points: 100}, {Step: 3600, Points: uint32(596523 + r.Intn(4))}}
		}
		cd.Class = "overflow-retention"
	case 11:
		cd.Archs[r.Intn(k)].Step = uint32(1<<31) + uint32(r.Intn(1000))
		cd.Class = "step-beyond-int32"
	case 12, 13:
		cd.Method = int64(r.Intn(11)) - 1 // -1..9
		if !model.ValidMethod(cd.Method) {
			cd.Class = "bad-method"
		}
	case 14, 15, 16:
		b := xffPatterns[r.Intn(len(xffPatterns))]
		cd.Xff = math.Float32frombits(b)
		cd.Class = "xff-pattern"
	case 17:
		cd.Xff = math.Float32frombits(r.Uint32())
		cd.Class = "xff-random-bits"
	case 18:
		if k > 1 && r.Intn(2) == 0 {
			// archives out of order (the sorted list would be valid)
			j := i + 1
			cd.Archs[i], cd.Archs[j] = cd.Archs[j], cd.Archs[i]
			cd.Class = "out-of-order"
			break
		}
		fallthrough
	case 20: // boundary: ratio exactly met / retention barely longer
		if k > 1 {
			ratio := cd.Archs[i+1].Step / cd.Archs[i].Step
			cd.Archs[i].Points = ratio
			if cd.Archs[i+1].Ret() <= cd.Archs[i].Ret() {
				cd.Archs[i+1].Points = 2
			}
			cd.Class = "boundary-valid?"
		}
	case 19: // sizes around 2^32 bytes: 16+12k+12*P in {2^32-24 .. 2^32+36}
		switch r.Intn(3) {
		case 0:
			cd.Archs = []model.Arch{{Step: 1, Points: uint32(357913936 + r.Intn(7))}}
		case 1:
			p1 := uint32(100000000 + r.Intn(1000))
			cd.Archs = []model.Arch{{Step: 1, Points: p1}, {Step: 4, Points: uint32(357913935+r.Intn(7)) - p1}}
		default:
			cd.Archs = []model.Arch{{Step: 1, Points: 178956000}, {Step: 2, Points: uint32(178956000 + r.Intn(900))}}
		}
		cd.Class = "near-4GiB"
	}
	cd.XffB = math.Float32bits(cd.Xff)
	return cd
}

func (c07) Run(c *fw.Ctx) {
	r := c.Rng
	type tally struct{ acc, rej int }
	t := map[string]*tally{}
	for _, e := range []string{"newheader", "create", "parse", "takefrom", "open", "cli"} {
		t[e] = &tally{}
	}
	var sample []string
	hashParts := ""
	var reused wt.Header // decoded into again and again: a decoder's verdict must not depend on what the receiver held before
	for j := 0; j < 40 && !c.Violated(); j++ {
		cd := (c07{}).genCandidate(c, j)
		hashParts += fw.JSON(cd)
		lv, why := model.ValidLayout(cd.Archs)
		mOK := model.ValidMethod(cd.Method)
		xOK := model.ValidXff(cd.Xff)
		if lv == model.DontCare {
			c.Count("band_dontcare", 1)
			continue
		}
		layoutOK := lv == model.Valid
		wantAll := layoutOK && mOK && xOK
		detail := fw.J{"candidate": cd, "xff": strconv.FormatFloat(float64(cd.Xff), 'g', -1, 32), "valid_layout": layoutOK, "why": why, "valid_method": mOK, "valid_xff": xOK}
		if len(sample) < 6 {
			sample = append(sample, fmt.Sprintf("%s: method=%d xff=%v archs=%v -> valid=%v", cd.Class, cd.Method, cd.Xff, cd.Archs, wantAll))
		}
		// per-rule coverage
		if !wantAll {
			switch cd.Class {
			case "equal-steps":
				c.Count("reject_equal_steps", 1)
			case "out-of-order":
				c.Count("reject_out_of_order", 1)
			case "near-4GiB":
				c.Count("reject_size_beyond_4GiB", 1)
			case "non-dividing":
				c.Count("reject_nondividing", 1)
			case "equal-retention", "shorter-retention":
				c.Count("reject_equal_retention", 1)
			case "too-few-points":
				c.Count("reject_too_few_points", 1)
			case "zero-step", "zero-points":
				c.Count("reject_zero", 1)
			case "empty":
				c.Count("reject_empty", 1)
			case "overflow-offset":
				c.Count("reject_overflow_offset", 1)
			case "overflow-retention", "step-beyond-int32":
				c.Count("reject_overflow_retention", 1)
			case "bad-method":
				c.Count("reject_method", 1)
			}
			if !xOK {
				if cd.Xff != cd.Xff {
					c.Count("reject_xff_nan", 1)
				} else {
					c.Count("reject_xff_range", 1)
				}
			}
		} else if cd.XffB == 0x80000000 {
			c.Count("accept_xff_negzero", 1)
		}

		var aa wt.ArchiveInfoList
		stepsFit := true
		for _, a := range cd.Archs {
			if a.Step > math.MaxInt32 {
				stepsFit = false
			}
			aa = append(aa, wt.NewArchiveInfo(wt.Duration(int32(a.Step)), a.Points))
		}
		verdict := func(entry string, accepted, want bool, err error) {
			if accepted {
				t[entry].acc++
			} else {
				t[entry].rej++
			}
			if accepted != want {
				es := ""
				if err != nil {
					es = err.Error()
				}
				d := fw.J{"entry": entry, "accepted": accepted, "want_accepted": want, "err": es}
				for k, v := range detail {
					d[k] = v
				}
				kind := "accepts-invalid"
				if want {
					kind = "rejects-valid"
				}
				c.Violationf(entry+"-"+kind+":"+cd.Class, d, "%s %s candidate %s (method=%d xff=%v archs=%v; layout: %s) err=%v", entry, kind, cd.Class, cd.Method, cd.Xff, cd.Archs, why, err)
			}
		}

		// (1) NewHeader
		var hdr *wt.Header
		if mOK || cd.Method == int64(int(cd.Method)) {
			h, err := wt.NewHeader(wt.AggregationMethod(cd.Method), cd.Xff, append(wt.ArchiveInfoList(nil), aa...))
			verdict("newheader", err == nil, wantAll, err)
			if err == nil {
				hdr = h
			}
		}
		// (1b) the same list arriving by other routes: lists that already carry offsets (parsed from a longer or shorter
		// retention string, taken from a header built before, the same backing array used twice) must get the same verdict
		if mOK && xOK {
			for _, rt := range c07Routes(cd.Archs, aa) {
				if rt.list == nil {
					continue
				}
				c.Count("route_"+rt.name, 1)
				detail["route"] = rt.name
				_, err := wt.NewHeader(wt.AggregationMethod(cd.Method), cd.Xff, rt.list)
				verdict("newheader", err == nil, wantAll, err)
				if rt.createToo && c.Index%2 == 0 {
					p := filepath.Join(c.TmpDir(), fmt.Sprintf("c07-route-%d.wsp", j))
					db, err := wt.Create(p, rt.list, wt.AggregationMethod(cd.Method), cd.Xff)
					verdict("create", err == nil, wantAll, err)
					if err == nil {
						db.Close()
					}
					os.Remove(p)
				}
				delete(detail, "route")
			}
		}
		// (2) Create + sync + reopen
		l := model.Layout{Archs: cd.Archs, Method: int(cd.Method), Xff: cd.Xff}
		small := true
		var fsz int64 = 16
		for _, a := range cd.Archs {
			fsz += 12 + 12*int64(a.Points)
			if fsz > 64<<20 {
				small = false
			}
		}
		if small {
			p := filepath.Join(c.TmpDir(), fmt.Sprintf("c07-%d.wsp", j))
			callers := append(wt.ArchiveInfoList(nil), aa...)
			db, err := wt.Create(p, callers, wt.AggregationMethod(cd.Method), cd.Xff)
			verdict("create", err == nil, wantAll, err)
			if err == nil {
				if j%2 == 1 {
					// the caller goes on using ITS slice (another, shorter header built from it; elements overwritten):
					// what Create accepted and wrote is what must be found on reopening
					if len(callers) >= 2 {
						wt.NewHeader(wt.Average, 0.5, callers[:len(callers)-1])
					}
					callers[0] = wt.NewArchiveInfo(wt.Duration(1), 1)
					c.Count("caller_list_reused_after_create", 1)
				}
				serr := db.Sync()
				db.Close()
				if serr != nil {
					c.Violationf("create-sync-error", detail, "Sync of a created file failed: %v", serr)
				}
				img, _ := ioutil.ReadFile(p)
				want := model.EncodeHeader(l)
				if int64(len(img)) != l.FileSize() || !bytes.Equal(img[:len(want)], want) {
					c.Violationf("created-header-bytes", detail, "created file: length %d (want %d), header bytes %x (want %x)", len(img), l.FileSize(), img[:minI(len(img), len(want))], want)
				}
				db2, err := wt.Open(p)
				if err != nil {
					c.Violationf("accepted-layout-does-not-reopen", detail, "file created from an accepted layout cannot be reopened: %v", err)
				} else {
					h2 := db2.Header()
					ok := hdr != nil && h2.AggregationMethod() == hdr.AggregationMethod() && math.Float32bits(h2.XFilesFactor()) == math.Float32bits(hdr.XFilesFactor()) &&
						h2.MaxRetention() == hdr.MaxRetention() && int64(h2.MaxRetention()) == l.MaxRet() && h2.ArchiveInfoList().Equal(hdr.ArchiveInfoList()) && len(h2.ArchiveInfoList()) == len(cd.Archs) &&
						h2.String() == hdr.String() && h2.ExpectedFileSize() == l.FileSize()
					if ok {
						for i, a := range h2.ArchiveInfoList() {
							if uint32(a.SecondsPerPoint()) != cd.Archs[i].Step || a.NumberOfPoints() != cd.Archs[i].Points {
								ok = false
							}
						}
					}
					if !ok {
						c.Violationf("reopened-header-differs", detail, "reopened header %q differs from the created one", h2.String())
					} else {
						c.Count("reopen_header_equal", 1)
					}
					db2.Close()
				}
			} else {
				// a rejected Create leaves the path as it was (absent): a well-formed layout can be created there at once
				ok := wt.ArchiveInfoList{wt.NewArchiveInfo(wt.Duration(1), 10), wt.NewArchiveInfo(wt.Duration(10), 10)}
				db2, err2 := wt.Create(p, ok, wt.Sum, 0.5)
				c.Count("creates_after_a_rejected_create", 1)
				if err2 != nil {
					c.Violationf("rejected-create-left-something-behind", fw.J{"candidate": cd, "rejected_with": fmt.Sprint(err), "then": err2.Error()},
						"Create rejected a list (%v); creating a well-formed layout at the same path right afterwards failed: %v", err, err2)
				} else {
					db2.Close()
				}
				os.Remove(p)
			}
		}
		// (3) retention string
		expressible := len(cd.Archs) > 0
		for _, a := range cd.Archs {
			if a.Ret() > math.MaxInt32 || a.Step > math.MaxInt32 {
				expressible = false
			}
		}
		if expressible {
			s := model.Layout{Archs: cd.Archs}.RetentionString()
			pl, err := wt.ParseArchiveInfoList(s)
			verdict("parse", err == nil, layoutOK, err)
			if err == nil {
				if len(pl) != len(cd.Archs) {
					c.Violationf("parse-wrong-list", detail, "ParseArchiveInfoList(%q) returned %d archives", s, len(pl))
				}
				for i := range pl {
					if i < len(cd.Archs) && (uint32(pl[i].SecondsPerPoint()) != cd.Archs[i].Step || pl[i].NumberOfPoints() != cd.Archs[i].Points) {
						c.Violationf("parse-wrong-list", detail, "ParseArchiveInfoList(%q) archive %d = %v", s, i, pl[i])
					}
				}
			}
		}
		// (4) Header.TakeFrom on the format-prescribed encoding; (5) Open of a sparse file carrying it
		if cd.Method >= 0 && cd.Method <= math.MaxUint32 {
			enc := model.EncodeHeader2(cd.Method, cd.XffB, cd.Archs)
			var h wt.Header
			rest, err := h.TakeFrom(append(enc, 0xAA, 0xBB))
			verdict("takefrom", err == nil, wantAll, err)
			if err == nil && !(len(rest) == 2 && rest[0] == 0xAA) {
				c.Violationf("takefrom-remainder", detail, "Header.TakeFrom left %d bytes", len(rest))
			}
			detail["route"] = "receiver-used-before"
			_, err2 := reused.TakeFrom(append(enc, 0xAA, 0xBB))
			verdict("takefrom", err2 == nil, wantAll, err2)
			c.Count("takefrom_into_used_receiver", 1)
			if err == nil && err2 == nil && (reused.String() != h.String() || !reused.ArchiveInfoList().Equal(h.ArchiveInfoList()) || len(reused.ArchiveInfoList()) != len(cd.Archs)) {
				c.Violationf("takefrom-depends-on-receiver", detail, "decoding into a header used before gives %q, into a fresh one %q", reused.String(), h.String())
			}
			delete(detail, "route")
			_ = stepsFit
			var size int64 = int64(len(enc))
			for _, a := range cd.Archs {
				size += 12 * int64(a.Points)
			}
			if size <= 1<<30 {
				p := filepath.Join(c.TmpDir(), fmt.Sprintf("c07-open-%d.wsp", j))
				f, ferr := os.Create(p)
				if ferr == nil {
					f.Write(enc)
					f.Truncate(size) // sparse
					f.Close()
					db, err := wt.Open(p)
					verdict("open", err == nil, wantAll, err)
					if err == nil {
						db.Close()
					}
					if j%4 == 0 && size < 1<<26 {
						// the same header in a file LONGER than the layout needs (padded to a block, preallocated): the
						// list is as well-formed as before
						os.Truncate(p, size+int64(1+r.Intn(8192)))
						detail["route"] = "file-longer-than-the-layout-needs"
						db, err := wt.Open(p)
						verdict("open", err == nil, wantAll, err)
						if err == nil {
							db.Close()
						}
						delete(detail, "route")
						c.Count("open_of_padded_files", 1)
					}
					os.Remove(p)
				}
			}
		}
		// (6) CLI flags through the real binary (sampled)
		if (c.Index*40+j)%16 == 0 && expressible && small {
			name, okName := model.MethodNames[int(cd.Method)]
			if !okName {
				name = fmt.Sprintf("method%d", cd.Method)
			}
			p := filepath.Join(c.TmpDir(), fmt.Sprintf("c07-cli-%d.wsp", j))
			args := []string{"generate", "-dest", p, "-fill=false", "-agg-method", name,
				"-x-files-factor", strconv.FormatFloat(float64(cd.Xff), 'g', -1, 32), "-retentions", model.Layout{Archs: cd.Archs}.RetentionString()}
			out, err := exec.Command(filepath.Join(c.Env.BuildDir, "whispertool"), args...).CombinedOutput()
			accepted := err == nil
			if bytes.Contains(out, []byte("panic:")) {
				c.Violationf("cli-panic", fw.J{"args": args, "out": string(out)}, "generate panicked")
			}
			verdict("cli", accepted, wantAll, fmt.Errorf("%v: %s", err, bytes.TrimSpace(out)))
			if accepted {
				ph, _, _, perr := rawOfFile(p)
				if perr != nil || !bytes.Equal(model.EncodeHeader(l), model.EncodeHeaderRaw(ph.Method, ph.MaxRet, ph.XffBits, ph.Count, ph.Offsets, ph.Steps, ph.Points)) {
					c.Violationf("cli-created-header", fw.J{"args": args}, "generate created a file whose header differs from the request")
				}
			}
			os.Remove(p)
		}
	}
	// retention strings written with units: the meaning (number x unit) must fit 31 bits, no wrap-around
	if c.Index%4 == 0 {
		for _, str := range []string{"1y:68y", "1y:69y", "1s:137y", "1s:1193047h", "1s:49711d", "1s:7102w", "1s:71582789m", "1m:35791394m", "1m:35791395m", "1h:596523h", "1h:596524h", "1d:24855d", "1d:24856d", "1w:3550w", "1w:3551w",
			"1s:1m,8s:137y", "1m:1h,1h:204y", "64s:137y", "1d:1w,1w:68y", "1d:1w,1w:3550w", "1d:1w,1w:7102w"} {
			var archs []model.Arch
			fits := true
			for _, part := range strings.Split(str, ",") {
				sp := strings.Split(part, ":")
				_, _, m1 := durMeaning(sp[0])
				_, _, m2 := durMeaning(sp[1])
				if m1.Cmp(maxI32) > 0 || m2.Cmp(maxI32) > 0 || m1.Sign() == 0 || new(big.Int).Mod(m2, m1).Sign() != 0 {
					fits = false // over-long, zero step, or a retention that is not a multiple of its step
					break
				}
				archs = append(archs, model.Arch{Step: uint32(m1.Int64()), Points: uint32(m2.Int64() / m1.Int64())})
			}
			want := false
			if fits {
				v, _ := model.ValidLayout(archs)
				if v == model.DontCare {
					continue
				}
				want = v == model.Valid
			}
			pl, err := wt.ParseArchiveInfoList(str)
			c.Count("unit_retention_strings", 1)
			if (err == nil) != want {
				c.Violationf("parse-units-"+map[bool]string{true: "rejects-valid", false: "accepts-invalid"}[want], fw.J{"input": str, "fits_31_bits": fits, "parsed": pl.String()},
					"ParseArchiveInfoList(%q): accepted=%v, want %v (arithmetic meaning fits 31 bits: %v)", str, err == nil, want, fits)
			}
		}
	}
	for e, v := range t {
		c.Count(e+"_accept", int64(v.acc))
		c.Count(e+"_reject", int64(v.rej))
	}
	nt := true
	for _, e := range []string{"newheader", "create", "parse", "takefrom", "open"} {
		if t[e].acc == 0 || t[e].rej == 0 {
			nt = false
		}
	}
	if nt {
		c.Nontrivial(hashParts)
	}
	_ = r
	if c.Index < 64 {
		c.Sample(fw.J{"candidates": sample})
	}
}

type c07Route struct {
	name      string
	list      wt.ArchiveInfoList
	createToo bool
}

// c07Routes rebuilds the candidate list by the ways a caller gets hold of one besides NewArchiveInfo.
func c07Routes(archs []model.Arch, fresh wt.ArchiveInfoList) []c07Route {
	var out []c07Route
	expressible := func(as []model.Arch) bool {
		for _, a := range as {
			if a.Ret() > math.MaxInt32 || a.Step > math.MaxInt32 {
				return false
			}
		}
		return len(as) > 0
	}
	n := len(archs)
	// a prefix of a longer parsed list (offsets computed for n+1 archives)
	if n >= 1 && expressible(archs) {
		last := archs[n-1]
		ext := append(append([]model.Arch(nil), archs...), model.Arch{Step: last.Step * 2, Points: last.Points})
		if uint64(last.Step)*2 <= math.MaxInt32 && expressible(ext) {
			if pl, err := wt.ParseArchiveInfoList(model.Layout{Archs: ext}.RetentionString()); err == nil && len(pl) == n+1 {
				out = append(out, c07Route{"prefix-of-parsed-list", pl[:n], true})
			}
		}
	}
	// a shorter parsed list extended by a fresh archive (offsets computed for n-1 archives)
	if n >= 2 && expressible(archs[:n-1]) {
		if pl, err := wt.ParseArchiveInfoList(model.Layout{Archs: archs[:n-1]}.RetentionString()); err == nil && len(pl) == n-1 {
			out = append(out, c07Route{"parsed-list-extended", append(pl, fresh[n-1]), true})
		}
	}
	// the list of a header built before from its first archives, then the whole backing array
	if n >= 2 {
		shared := append(wt.ArchiveInfoList(nil), fresh...)
		if h, err := wt.NewHeader(wt.Average, 0.5, shared[:n-1]); err == nil {
			out = append(out, c07Route{"backing-array-used-by-shorter-header", shared, false})
			out = append(out, c07Route{"header-list-extended", append(append(wt.ArchiveInfoList(nil), h.ArchiveInfoList()...), fresh[n-1]), true})
		}
	}
	// the list of a header built from a longer list, cut
	if n >= 1 {
		last := archs[n-1]
		if uint64(last.Step)*2 <= math.MaxInt32 {
			longer := append(append(wt.ArchiveInfoList(nil), fresh...), wt.NewArchiveInfo(wt.Duration(int32(last.Step*2)), last.Points))
			if h, err := wt.NewHeader(wt.Average, 0.5, longer); err == nil {
				out = append(out, c07Route{"header-list-cut", h.ArchiveInfoList()[:n], true})
			}
		}
	}
	return out
}

func minI(a, b int) int {
	if a < b {
		return a
	}
	return b
}
