package props

import (
	"bytes"
	"crypto/sha256"
	"fmt"
	"io/ioutil"
	"math/rand"
	"os"
	"os/exec"
	"path/filepath"
	"regexp"
	"strconv"
	"strings"
	"sync"
	"syscall"
	"time"

	wt "github.com/hnakamur/whispertool"
	wcmd "github.com/hnakamur/whispertool/cmd"

	"verifharness/fw"
	"verifharness/model"
)

// C12 Remote/local transparency: a server URL behaves like the directory it serves.

type c12 struct{}

func init() { fw.Register(c12{}) }

func (c12) Meta() fw.Meta {
	return fw.Meta{
		ID: "C12",
		Rule: "setup = the real `whispertool server` (built from the working tree) as a child process per worker, serving a generated tree per case: nested item directories, two layouts, sparse contents, a corrupt file, an empty item directory, file names needing URL escaping (space, +, %, &, #, unicode), sibling directories whose hierarchical glob order differs from plain string order, paths below a regular file. " +
			"drivers: (a) the commands' own read paths through the verif export hook (readWhisperFile, readWhisperFileRaw, sumWhisperFile, globFiles, globItems) called with the directory and with the URL for ~60 requests per case at VIRTUAL clocks: every archive selection incl. out of range, windows ending in the past / beyond a retention / in the future, existing, missing and corrupt files, patterns matching, not matching and syntactically bad; " +
			"(b) the real binary, local and remote run inside the same wall-clock second: view, view-raw (-sort), sum, diff with either side remote, copy from the URL and from the directory into two fresh destinations. " +
			"oracle: same success/failure; on success equal header and per archive absent-or-bit-equal series / raw point lists / identical name lists in order; on failure the same os.IsNotExist classification; CLI stdout byte-identical and same exit code; the two copied destinations byte-identical; server output scanned for 'panic serving'. " +
			"non-trivial = case with at least one successful pair carrying data, one not-exist pair and one error pair; distinct by tree + clock." +
			" Every 4th case runs against the delayed single-threaded server with concurrent clients; every case adds a pair of reads issued while a writer holds the file with pending changes (both must equal the state after it closed) and repeats file/item listings after files and item directories were added and removed below sub-directories." +
			" Cases run under UTC, +9 h or -8 h local time; every 3rd case starts its own servers (base = a symbolic link that is re-pointed while the server runs; server started inside the tree with -base . and with the default) and every 3rd case lists through a proxy that breaks off half way through /files and /items answers." +
			" Every 5th case writes the base URL with a trailing slash; odd cases sum order-sensitive values with the first file held only during the remote call; every 6th case reads a 0444 file as uid 65534 through the directory and through a server run by that uid.",
		Assumptions: []string{
			"an absent series is the same observable as the all-zero empty series (nil vs zero-length), see DESIGN.md section 4 (fix 0902534)",
			"error texts are not compared, only success/failure and the not-exist classification",
		},
		Obligations: []string{"pairs_view", "pairs_view_raw", "pairs_sum", "pairs_files", "pairs_items", "pairs_success_with_data", "pairs_notexist", "pairs_error", "absent_series_pairs", "escaped_name_pairs", "past_window_pairs", "bad_pattern_pairs", "cli_pairs", "cli_copy_pairs", "cli_diff_remote_side", "path_below_regular_file_pairs", "cases_with_concurrent_clients", "listings_repeated_after_tree_change", "cases_in_a_non_utc_zone", "reads_while_writer_holds_file", "servers_with_a_repointed_base_link", "servers_started_inside_the_tree", "listings_from_a_peer_that_breaks_off", "order_sensitive_sums_with_the_first_file_held_remotely", "unprivileged_reads_of_a_read_only_file", "server_socket_writes_delayed", "concurrent_noise_requests_served"},
		Workers:     8,
	}
}

func (c12) Cases(tier string) int {
	if tier == "thorough" {
		return 3000
	}
	return 96
}

func tslEqual(a, b wcmd.TimeSeriesList) string {
	if len(a) != len(b) {
		return fmt.Sprintf("%d vs %d archives", len(a), len(b))
	}
	for i := range a {
		if msg := seriesEqual(a[i], b[i]); msg != "" {
			return fmt.Sprintf("archive %d: %s", i, msg)
		}
	}
	return ""
}

func plEqual(a, b wcmd.PointsList) string {
	if len(a) != len(b) {
		return fmt.Sprintf("%d vs %d archives", len(a), len(b))
	}
	for i := range a {
		if len(a[i]) != len(b[i]) {
			return fmt.Sprintf("archive %d: %d vs %d points", i, len(a[i]), len(b[i]))
		}
		for j := range a[i] {
			if a[i][j].Time != b[i][j].Time || !sameFloat(float64(a[i][j].Value), float64(b[i][j].Value)) {
				return fmt.Sprintf("archive %d point %d: %v vs %v", i, j, a[i][j], b[i][j])
			}
		}
	}
	return ""
}

func classify(err error) string {
	switch {
	case err == nil:
		return "ok"
	case os.IsNotExist(err):
		return "notexist"
	default:
		return "error"
	}
}

var nowLineRe = regexp.MustCompile(`(?m)^now:[^\t\n]*`)
var timeLineRe = regexp.MustCompile(`(?m)^time:[^\n]*\n`)
var errTextRe = regexp.MustCompile(`(?m)^err:[^\t\n]*`)

func (c12) Run(c *fw.Ctx) {
	r := c.Rng
	if c.Env.State["c12_server_hung"] != nil {
		// an earlier case of this worker convicted the server of not answering: do not spend 90 s per request again
		c.Count("cases_skipped_after_server_hang", 1)
		return
	}
	srv := workerServer
	if c.Index%4 == 3 {
		// one scheduler thread, socket writes delayed by 20 ms, other clients reading the same files meanwhile
		srv = workerServer1P
	}
	u, served, ok := srv(c)
	if !ok {
		return
	}
	if c.Index%5 == 0 {
		u += "/" // a base URL written with a trailing slash names the same server (as dir/ names the same directory)
		c.Count("cases_with_a_trailing_slash_base_url", 1)
	}
	// the client's local time zone is an environment condition: remote and local results must not depend on it
	if z := []*time.Location{nil, time.FixedZone("JST", 9*3600), time.FixedZone("PST", -8*3600)}[c.Index%3]; z != nil {
		oldLocal := time.Local
		time.Local = z
		defer func() { time.Local = oldLocal }()
		c.Count("cases_in_a_non_utc_zone", 1)
	}
	caseDir := fmt.Sprintf("c12-%d-%d", c.Seed, c.Index)
	root := filepath.Join(served, caseDir)
	defer os.RemoveAll(root)
	l1 := cliLayout(r)
	l2 := cliLayout(r)
	vnow := genClock(r, l1)
	if vnow > 4000000000 || vnow < l2.MaxRet()+2*l2.MaxStep() {
		vnow = 1600000000 + int64(r.Intn(100000000))
	}
	odd := []string{"plain.wsp", "with space.wsp", "a+b.wsp", "100%.wsp", "q&a=1.wsp", "hash#1.wsp", "ünï.wsp"}
	files := map[string]model.Layout{}
	// "itemA-1" and "deep-1": siblings whose names extend another name with a character sorting before '/' and '.',
	// so that hierarchical glob order and plain string order differ
	dirs := []string{"itemA", "itemB", filepath.Join("deep", "er"), "itemA-1", filepath.Join("deep-1", "er")}
	for di, d := range dirs {
		n := 2 + r.Intn(3)
		for i := 0; i < n; i++ {
			name := odd[(di*3+i)%len(odd)]
			rel := filepath.Join(caseDir, d, name)
			l := l1
			if di == 1 {
				l = l2
			}
			writeFixture(filepath.Join(served, rel), l, genContent(r, l, vnow, 0.5), vnow)
			files[rel] = l
		}
	}
	// names with whitespace at their edges, sorting first / last in their directory
	for _, name := range []string{" lead.wsp", "mid.wsp", "zz-tail.wsp "} {
		rel := filepath.Join(caseDir, "edge", name)
		writeFixture(filepath.Join(served, rel), l1, genContent(r, l1, vnow, 0.5), vnow)
		files[rel] = l1
	}
	corrupt := filepath.Join(caseDir, "itemA", "corrupt.bin")
	ioutil.WriteFile(filepath.Join(served, corrupt), []byte("this is not a whisper file at all, not even close......"), 0644)
	mustMkdir(filepath.Join(served, caseDir, "emptyitem"))
	// an item whose files are truncated: every sum over it fails (in the long-lived server process too)
	{
		good := readFileOrNil(filepath.Join(served, caseDir, "itemA", odd[0]))
		mustMkdir(filepath.Join(served, caseDir, "broken"))
		for i := 0; i < 4; i++ {
			ioutil.WriteFile(filepath.Join(served, caseDir, "broken", fmt.Sprintf("t%d.wsp", i)), good[:len(good)/2], 0644)
		}
	}
	var rels []string
	for rel := range files {
		rels = append(rels, rel)
	}
	sortStrings(rels)

	sawData, sawNE, sawErr := false, false, false
	hung := false
	// remote runs f with a generous watchdog: the real clients have no timeout of their own, so a server that
	// stops answering would otherwise block the worker until its own watchdog (an inconclusive run)
	remote := func(kind string, desc fw.J, f func()) bool {
		if hung {
			return false
		}
		done := make(chan struct{})
		go func() { f(); close(done) }()
		select {
		case <-done:
			return true
		case <-time.After(90 * time.Second):
			hung = true
			c.Violationf("remote-request-hangs:"+kind, desc, "%s through the server did not return within 90 s (the local call returned at once)", kind)
			// this worker's server is unusable now: the next case starts a fresh one
			c12KillServers(c)
			c.Env.State["c12_server_hung"] = true
			return false
		}
	}
	// the local call runs under the same watchdog (a change that blocks the shared read path blocks the harness too)
	local := func(kind string, desc fw.J, f func()) bool {
		if hung {
			return false
		}
		done := make(chan struct{})
		go func() { f(); close(done) }()
		select {
		case <-done:
			return true
		case <-time.After(90 * time.Second):
			hung = true
			c.Violationf("local-request-hangs:"+kind, desc, "%s on the local directory did not return within 90 s", kind)
			c.Env.State["c12_server_hung"] = true
			return false
		}
	}
	pair := func(kind string, desc fw.J, lerr, rerr error, cmp func() string) {
		if hung {
			return
		}
		c.Count("pairs_"+kind, 1)
		lc, rc := classify(lerr), classify(rerr)
		desc["local_err"], desc["remote_err"] = fmt.Sprint(lerr), fmt.Sprint(rerr)
		if lc != rc {
			c.Violationf("remote-local-differ:"+kind, desc, "%s: local result is %s (%v), through the server %s (%v)", kind, lc, lerr, rc, rerr)
			return
		}
		switch lc {
		case "notexist":
			c.Count("pairs_notexist", 1)
			sawNE = true
		case "error":
			c.Count("pairs_error", 1)
			sawErr = true
		default:
			if msg := cmp(); msg != "" {
				desc["difference"] = msg
				c.Violationf("remote-local-differ:"+kind, desc, "%s: local and remote results differ: %s", kind, msg)
			}
		}
	}
	pickWindow := func(l model.Layout) (int64, int64, int64, string) {
		now := vnow + []int64{0, 0, 1, 7, int64(l.Archs[0].Step) * 3}[r.Intn(5)]
		a := l.Archs[r.Intn(len(l.Archs))]
		switch r.Intn(7) {
		case 0:
			return 0, now, now, "default"
		case 1: // ends in the past, starts before the archive's retention
			until := now - a.Ret()/2 - r.Int63n(a.Ret()/2+1)
			return maxI64(0, until-a.Ret()-r.Int63n(a.Ret()+1)), until, now, "past"
		case 2: // wholly beyond the finest retention
			until := now - l.Archs[0].Ret() - 1 - r.Int63n(int64(l.Archs[0].Step)*3+1)
			return maxI64(0, until-r.Int63n(l.MaxRet()+1)), until, now, "past"
		case 3: // future
			return now + 1 + r.Int63n(100), now + 200, now, "future"
		case 4: // degenerate
			f := now - r.Int63n(a.Ret()+1)
			return f, f, now, "degenerate"
		default:
			f := now - r.Int63n(l.MaxRet()+1)
			return f, f + r.Int63n(now-f+1), now, "inside"
		}
	}
	var noise []string
	if c.Index%4 == 3 {
		noise = rels
		if len(noise) > 6 {
			noise = noise[:6]
		}
		c.Count("cases_with_concurrent_clients", 1)
		if server1PDelayed(c) {
			c.Count("server_socket_writes_delayed", 1)
		}
	}
	withServerNoise(c, u, noise, func() {
		for q := 0; q < 60 && !c.Violated(); q++ {
			rel := rels[r.Intn(len(rels))]
			l := files[rel]
			switch r.Intn(10) {
			case 0:
				rel = filepath.Join(caseDir, "itemA", "missing.wsp")
			case 1:
				rel = corrupt
			case 2:
				rel = filepath.Join(caseDir, "nodir", "x.wsp")
			case 3:
				if r.Intn(3) == 0 {
					rel = filepath.Join(rel, "below-a-file.wsp") // a parent component is a regular file (ENOTDIR, not not-exist)
					c.Count("path_below_regular_file_pairs", 1)
				}
			}
			sel := r.Intn(len(l.Archs)+3) - 1 // -1 .. n+1
			if r.Intn(8) == 0 {
				sel = -2
			}
			from, until, now, wk := pickWindow(l)
			if from < 0 {
				from = 0 // (a clock only a few steps above the retention: window arithmetic may go below the epoch)
			}
			if until < 0 {
				until = 0
			}
			escaped := strings.ContainsAny(rel, " +%&#ü")
			switch r.Intn(9) {
			case 0, 1, 2, 3:
				var lh *wt.Header
				var lt wcmd.TimeSeriesList
				var lerr error
				local("view", fw.J{"file": rel, "archive": sel}, func() { lh, lt, lerr = wcmd.VerifReadWhisperFile(served, rel, sel, u32(from), u32(until), u32(now)) })
				var rh *wt.Header
				var rt wcmd.TimeSeriesList
				var rerr error
				remote("view", fw.J{"file": rel, "archive": sel}, func() { rh, rt, rerr = wcmd.VerifReadWhisperFile(u, rel, sel, u32(from), u32(until), u32(now)) })
				pair("view", fw.J{"file": rel, "archive": sel, "from": from, "until": until, "now": now, "window": wk}, lerr, rerr, func() string {
					if lh.String() != rh.String() {
						return "headers differ: " + lh.String() + " vs " + rh.String()
					}
					for _, ts := range lt {
						if ts == nil {
							c.Count("absent_series_pairs", 1)
						} else if len(ts.Values()) > 0 {
							sawData = true
							c.Count("pairs_success_with_data", 1)
						}
					}
					if escaped {
						c.Count("escaped_name_pairs", 1)
					}
					if wk == "past" {
						c.Count("past_window_pairs", 1)
					}
					return tslEqual(lt, rt)
				})
			case 4, 5:
				var lh *wt.Header
				var lp wcmd.PointsList
				var lerr error
				local("view_raw", fw.J{"file": rel, "archive": sel}, func() { lh, lp, lerr = wcmd.VerifReadWhisperFileRaw(served, rel, sel) })
				var rh *wt.Header
				var rp wcmd.PointsList
				var rerr error
				remote("view_raw", fw.J{"file": rel, "archive": sel}, func() { rh, rp, rerr = wcmd.VerifReadWhisperFileRaw(u, rel, sel) })
				pair("view_raw", fw.J{"file": rel, "archive": sel}, lerr, rerr, func() string {
					if lh.String() != rh.String() {
						return "headers differ"
					}
					if escaped {
						c.Count("escaped_name_pairs", 1)
					}
					return plEqual(lp, rp)
				})
			case 6:
				item := []string{caseDir + ".itemA", caseDir + ".itemB", caseDir + ".deep.er", caseDir + ".emptyitem", caseDir + ".nosuch", caseDir + ".broken", caseDir + ".broken"}[r.Intn(7)]
				pat := []string{"*.wsp", "*.wsp", "plain.wsp", "zz*.wsp", "*"}[r.Intn(5)]
				var lh *wt.Header
				var lt wcmd.TimeSeriesList
				var lerr error
				local("sum", fw.J{"item": item, "pattern": pat, "archive": sel}, func() {
					lh, lt, lerr = wcmd.VerifSumWhisperFile(served, item, pat, sel, u32(from), u32(until), u32(now))
				})
				var rh *wt.Header
				var rt wcmd.TimeSeriesList
				var rerr error
				remote("sum", fw.J{"item": item, "pattern": pat, "archive": sel}, func() { rh, rt, rerr = wcmd.VerifSumWhisperFile(u, item, pat, sel, u32(from), u32(until), u32(now)) })
				pair("sum", fw.J{"item": item, "pattern": pat, "archive": sel, "from": from, "until": until, "now": now}, lerr, rerr, func() string {
					if lh.String() != rh.String() {
						return "headers differ"
					}
					return tslEqual(lt, rt)
				})
			case 7:
				pat := []string{caseDir + "/*/*.wsp", caseDir + "/itemA/*", caseDir + "/deep/er/*.wsp", caseDir + "/zz*/*.wsp", caseDir + "/[", caseDir + "/itemA/with*", caseDir + "/*/*%*", caseDir + "/item*/*.wsp", caseDir + "/*/er/*.wsp", caseDir + "/edge/*", caseDir + "/edge/*.wsp*"}[r.Intn(11)]
				var ln []string
				var lerr error
				local("files", fw.J{"pattern": pat}, func() { ln, lerr = wcmd.VerifGlobFiles(served, pat) })
				var rn []string
				var rerr error
				remote("files", fw.J{"pattern": pat}, func() { rn, rerr = wcmd.VerifGlobFiles(u, pat) })
				if strings.HasSuffix(pat, "[") {
					c.Count("bad_pattern_pairs", 1)
				}
				pair("files", fw.J{"pattern": pat}, lerr, rerr, func() string {
					if strings.Join(ln, "\n") != strings.Join(rn, "\n") {
						return fmt.Sprintf("name lists differ: %q vs %q", ln, rn)
					}
					return ""
				})
			default:
				pat := []string{caseDir + "/*", caseDir + "/item*", caseDir + "/deep/*", caseDir + "/zz*", caseDir + "/[a", caseDir + "/*/*", caseDir + "/*/er", caseDir + "/deep*/*"}[r.Intn(8)]
				var ln []string
				var lerr error
				local("items", fw.J{"pattern": pat}, func() { ln, lerr = wcmd.VerifGlobItems(served, pat) })
				var rn []string
				var rerr error
				remote("items", fw.J{"pattern": pat}, func() { rn, rerr = wcmd.VerifGlobItems(u, pat) })
				if strings.HasSuffix(pat, "[a") {
					c.Count("bad_pattern_pairs", 1)
				}
				pair("items", fw.J{"pattern": pat}, lerr, rerr, func() string {
					if strings.Join(ln, "\n") != strings.Join(rn, "\n") {
						return fmt.Sprintf("item lists differ: %q vs %q", ln, rn)
					}
					return ""
				})
			}
		}
	})
	// values that do not add associatively (1, 1e17, -1e17 in name order), summed through the server while the FIRST file
	// is locked for a moment (so it is read last there) and locally without any hold: the same sum
	if c.Index%2 == 1 && !c.Violated() && !hung {
		for i, v := range []float64{1, 1e17, -1e17} {
			cont := make(slotContent, len(l1.Archs))
			for ai, a := range l1.Archs {
				cont[ai] = map[int64]float64{}
				for ts := model.AlignNext(vnow-a.Ret(), a.Step); ts <= vnow; ts += int64(a.Step) {
					cont[ai][ts] = v
				}
			}
			writeFixture(filepath.Join(served, caseDir, "fpo", fmt.Sprintf("f%d.wsp", i)), l1, cont, vnow)
		}
		item := dotted(filepath.Join(caseDir, "fpo"))
		var lh, rh *wt.Header
		var lt, rt wcmd.TimeSeriesList
		var lerr, rerr error
		local("sum", fw.J{"item": item}, func() { lh, lt, lerr = wcmd.VerifSumWhisperFile(served, item, "*.wsp", -1, 0, u32(vnow), u32(vnow)) })
		if hold, err := wt.Open(filepath.Join(served, caseDir, "fpo", "f0.wsp")); err == nil {
			go func() { time.Sleep(150 * time.Millisecond); hold.Close() }()
		}
		remote("sum", fw.J{"item": item}, func() { rh, rt, rerr = wcmd.VerifSumWhisperFile(u, item, "*.wsp", -1, 0, u32(vnow), u32(vnow)) })
		c.Count("order_sensitive_sums_with_the_first_file_held_remotely", 1)
		pair("sum", fw.J{"item": item, "values": "1, 1e17, -1e17 in name order", "remote": "first file locked for 150 ms"}, lerr, rerr, func() string {
			if lh.String() != rh.String() {
				return "headers differ: " + lh.String() + " vs " + rh.String()
			}
			return tslEqual(lt, rt)
		})
	}
	// files the invoking user may read but not open for writing (mode 0444, owner root; reader and server both run as
	// uid 65534): whatever the directory read says, the URL of a server run by the same user says the same
	if c.Index%6 == 4 && !c.Violated() && !hung {
		c12ReadOnly(c, l1, vnow)
	}
	// a peer that dies in the middle of a listing: the answer is an error (not "nothing matched", not a shorter list)
	if c.Index%3 == 2 && !c.Violated() && !hung {
		proxy := breakingListingProxy(u)
		for _, q := range []struct{ kind, pat string }{{"files", caseDir + "/*/*.wsp"}, {"items", caseDir + "/*"}} {
			var ln, rn []string
			var lerr, rerr error
			if q.kind == "files" {
				ln, lerr = wcmd.VerifGlobFiles(served, q.pat)
				remote("files", fw.J{"pattern": q.pat, "peer": "breaks off"}, func() { rn, rerr = wcmd.VerifGlobFiles(proxy.URL, q.pat) })
			} else {
				ln, lerr = wcmd.VerifGlobItems(served, q.pat)
				remote("items", fw.J{"pattern": q.pat, "peer": "breaks off"}, func() { rn, rerr = wcmd.VerifGlobItems(proxy.URL, q.pat) })
			}
			c.Count("listings_from_a_peer_that_breaks_off", 1)
			if lerr != nil || len(ln) < 2 {
				continue
			}
			if rerr == nil && strings.Join(ln, "\n") != strings.Join(rn, "\n") {
				c.Violationf("remote-local-differ:"+q.kind, fw.J{"pattern": q.pat, "local": ln, "remote": rn, "peer": "announced the whole listing, sent half of it and closed the connection"},
					"the peer broke off in the middle of the %s listing: the client returned %d of %d names without an error", q.kind, len(rn), len(ln))
				break
			}
			if rerr != nil && os.IsNotExist(rerr) {
				c.Violationf("remote-local-differ:"+q.kind, fw.J{"pattern": q.pat, "local": ln, "remote_err": rerr.Error()},
					"the peer broke off in the middle of the %s listing: the client reports the pattern as matching nothing", q.kind)
				break
			}
		}
		proxy.Close()
	}
	// servers started the way an operator might: the base is a symbolic link that is re-pointed to another tree while
	// the server runs; the server is started inside the tree with -base . or with the flag's default
	if c.Index%3 == 1 && !c.Violated() && !hung {
		own := filepath.Join(c.TmpDir(), "own")
		treeA, treeB := filepath.Join(own, "release1"), filepath.Join(own, "release2")
		writeFixture(filepath.Join(treeA, "d", "f.wsp"), l1, genContent(r, l1, vnow, 0.6), vnow)
		writeFixture(filepath.Join(treeB, "d", "f.wsp"), l1, genContent(r, l1, vnow, 0.6), vnow)
		writeFixture(filepath.Join(treeB, "d", "only-in-2.wsp"), l1, genContent(r, l1, vnow, 0.6), vnow)
		link := filepath.Join(own, "current")
		os.Symlink(treeA, link)
		check := func(u, base, what string) {
			for _, rel := range []string{"d/f.wsp", "d/only-in-2.wsp", "d/nothing.wsp"} {
				var lt, rt wcmd.TimeSeriesList
				var lerr, rerr error
				local("view", fw.J{"file": rel, "server": what}, func() { _, lt, lerr = wcmd.VerifReadWhisperFile(base, rel, -1, 0, u32(vnow), u32(vnow)) })
				remote("view", fw.J{"file": rel, "server": what}, func() { _, rt, rerr = wcmd.VerifReadWhisperFile(u, rel, -1, 0, u32(vnow), u32(vnow)) })
				pair("view", fw.J{"file": rel, "server": what}, lerr, rerr, func() string { return tslEqual(lt, rt) })
			}
			var ln, rn []string
			var lerr, rerr error
			local("files", fw.J{"pattern": "d/*.wsp", "server": what}, func() { ln, lerr = wcmd.VerifGlobFiles(base, "d/*.wsp") })
			remote("files", fw.J{"pattern": "d/*.wsp", "server": what}, func() { rn, rerr = wcmd.VerifGlobFiles(u, "d/*.wsp") })
			pair("files", fw.J{"pattern": "d/*.wsp", "server": what}, lerr, rerr, func() string {
				if strings.Join(ln, "\n") != strings.Join(rn, "\n") {
					return fmt.Sprintf("name lists differ (%s): %q vs %q", what, ln, rn)
				}
				return ""
			})
		}
		if cmd1, u1, _, err := startServerIn(cliBin(c), link, "", os.Environ()); err == nil {
			check(u1, link, "base is a symbolic link")
			os.Symlink(treeB, link+".new")
			os.Rename(link+".new", link)
			check(u1, link, "base is a symbolic link, re-pointed to another tree while the server runs")
			stopServer(cmd1)
			c.Count("servers_with_a_repointed_base_link", 1)
		}
		for _, b := range []string{".", ""} {
			if c.Violated() || hung {
				break
			}
			if cmd2, u2, _, err := startServerIn(cliBin(c), b, treeA, os.Environ()); err == nil {
				check(u2, treeA, fmt.Sprintf("started inside the tree with -base %q", b))
				stopServer(cmd2)
				c.Count("servers_started_inside_the_tree", 1)
			}
		}
	}
	// a request that arrives while a writer holds the file (changes made, not yet synced): through the directory the
	// read waits for the writer and sees its result; through the server it must be the same
	if !c.Violated() && !hung && len(rels) > 0 {
		rel := rels[r.Intn(len(rels))]
		l := files[rel]
		if hold, err := wt.Open(filepath.Join(served, rel)); err == nil {
			a0 := l.Archs[0]
			for j := 0; j < 4; j++ {
				hold.UpdatePointForArchive(0, u32(vnow-int64(j)*int64(a0.Step)), wt.Value(7777.25+float64(j)), u32(vnow))
			}
			var lt, rt wcmd.TimeSeriesList
			var lerr, rerr error
			var wg sync.WaitGroup
			wg.Add(2)
			go func() {
				defer wg.Done()
				local("view", fw.J{"file": rel, "while": "writer holds the file"}, func() { _, lt, lerr = wcmd.VerifReadWhisperFile(served, rel, -1, 0, u32(vnow), u32(vnow)) })
			}()
			go func() {
				defer wg.Done()
				remote("view", fw.J{"file": rel, "while": "writer holds the file"}, func() { _, rt, rerr = wcmd.VerifReadWhisperFile(u, rel, -1, 0, u32(vnow), u32(vnow)) })
			}()
			time.Sleep(time.Duration(250+r.Intn(200)) * time.Millisecond)
			hold.Sync()
			hold.Close()
			wg.Wait()
			if !c.Violated() {
				_, ref, referr := wcmd.VerifReadWhisperFile(served, rel, -1, 0, u32(vnow), u32(vnow))
				c.Count("reads_while_writer_holds_file", 1)
				if referr != nil || lerr != nil || rerr != nil {
					c.Violationf("remote-local-differ:view-while-writer-holds-file", fw.J{"file": rel, "local_err": fmt.Sprint(lerr), "remote_err": fmt.Sprint(rerr), "after_err": fmt.Sprint(referr)},
						"reads issued while a writer held %s: local error %v, remote error %v", rel, lerr, rerr)
				} else if dl, dr := tslEqual(ref, lt), tslEqual(ref, rt); dl != "" || dr != "" {
					c.Violationf("remote-local-differ:view-while-writer-holds-file", fw.J{"file": rel, "local_vs_after": dl, "remote_vs_after": dr},
						"reads issued while a writer held %s (4 updates pending, synced 250-450 ms later): compared with the state after the writer closed, the directory read differs by %q, the server read by %q", rel, dl, dr)
				}
			}
		}
	}
	// the tree changes between two listings of the same pattern (files and item directories appear and disappear
	// below sub-directories, so the served directory itself keeps its modification time): both sides must follow
	if !c.Violated() && !hung {
		fpats := []string{caseDir + "/*/*.wsp", caseDir + "/itemA/*", caseDir + "/item*/*.wsp", caseDir + "/deep/er/*.wsp"}
		ipats := []string{caseDir + "/*", caseDir + "/item*", caseDir + "/deep/*", caseDir + "/*/*"}
		listBoth := func(round string) {
			for _, pat := range fpats {
				var ln, rn []string
				var lerr, rerr error
				local("files", fw.J{"pattern": pat}, func() { ln, lerr = wcmd.VerifGlobFiles(served, pat) })
				remote("files", fw.J{"pattern": pat}, func() { rn, rerr = wcmd.VerifGlobFiles(u, pat) })
				pair("files", fw.J{"pattern": pat, "round": round}, lerr, rerr, func() string {
					if strings.Join(ln, "\n") != strings.Join(rn, "\n") {
						return fmt.Sprintf("name lists differ (%s): %q vs %q", round, ln, rn)
					}
					return ""
				})
			}
			for _, pat := range ipats {
				var ln, rn []string
				var lerr, rerr error
				local("items", fw.J{"pattern": pat}, func() { ln, lerr = wcmd.VerifGlobItems(served, pat) })
				remote("items", fw.J{"pattern": pat}, func() { rn, rerr = wcmd.VerifGlobItems(u, pat) })
				pair("items", fw.J{"pattern": pat, "round": round}, lerr, rerr, func() string {
					if strings.Join(ln, "\n") != strings.Join(rn, "\n") {
						return fmt.Sprintf("item lists differ (%s): %q vs %q", round, ln, rn)
					}
					return ""
				})
			}
		}
		listBoth("before the change")
		writeFixture(filepath.Join(served, caseDir, "itemA", "zz-added-later.wsp"), l1, genContent(r, l1, vnow, 0.5), vnow)
		writeFixture(filepath.Join(served, caseDir, "deep", "er", "added-later.wsp"), l1, genContent(r, l1, vnow, 0.5), vnow)
		writeFixture(filepath.Join(served, caseDir, "deep", "new-leaf", "n.wsp"), l1, genContent(r, l1, vnow, 0.5), vnow)
		for rel := range files {
			if strings.HasPrefix(rel, filepath.Join(caseDir, "itemB")+"/") {
				os.Remove(filepath.Join(served, rel))
				delete(files, rel)
				break
			}
		}
		listBoth("after files were added and removed")
		c.Count("listings_repeated_after_tree_change", 1)
	}
	if so := serverOutput(c); strings.Contains(so, "panic serving") {
		c.Violationf("server-panic", fw.J{"server_output": truncStr(so[strings.Index(so, "panic serving"):], 3000)}, "the server panicked while answering a request")
		return
	}
	if c.Violated() {
		return
	}
	rels = rels[:0]
	for rel := range files {
		rels = append(rels, rel)
	}
	sortStrings(rels)
	c12CLI(c, r, u, served, caseDir, rels, files)
	if sawData && sawNE && sawErr {
		c.Nontrivial(caseDir, vnow, l1.String(), l2.String())
	}
	if c.Index < 64 {
		c.Sample(fw.J{"files": rels, "virtual_clock": vnow, "layouts": []string{l1.String(), l2.String()}})
	}
}

func sortStrings(s []string) {
	for i := 1; i < len(s); i++ {
		for j := i; j > 0 && s[j] < s[j-1]; j-- {
			s[j], s[j-1] = s[j-1], s[j]
		}
	}
}

// c12RemoteCLIHung convicts a remote CLI run that did not finish (the clients have no timeout of their own; the
// harness kills the process after 120 s) and makes the worker stop using this server.
func c12RemoteCLIHung(c *fw.Ctx, name string, lres, rres cliResult) bool {
	if rres.T1-rres.T0 < 100 || lres.T1-lres.T0 >= 100 {
		return false
	}
	c.Violationf("remote-request-hangs:cli-"+name, fw.J{"local": lres.brief(), "remote": rres.brief()}, "%s against the server did not finish within 100 s (against the directory it took %d s)", name, lres.T1-lres.T0)
	c12KillServers(c)
	c.Env.State["c12_server_hung"] = true
	return true
}

func c12KillServers(c *fw.Ctx) {
	for _, k := range []string{"server", "server1p"} {
		if cm, ok := c.Env.State[k+"_cmd"].(*exec.Cmd); ok && cm.Process != nil {
			cm.Process.Kill()
		}
		delete(c.Env.State, k+"_url")
	}
}

// c12CLI runs the real commands against the directory and against the URL inside one wall-clock second.
func c12CLI(c *fw.Ctx, r *rand.Rand, u, served, caseDir string, rels []string, files map[string]model.Layout) {
	// CLI fixtures must be current at wall clock: rebuild two files now
	wnow := time.Now().Unix()
	l := cliLayout(r)
	relA := filepath.Join(caseDir, "cli", "one file.wsp")
	relB := filepath.Join(caseDir, "cli", "two.wsp")
	contA := genContent(r, l, wnow, 0.6)
	writeFixture(filepath.Join(served, relA), l, contA, wnow)
	writeFixture(filepath.Join(served, relB), l, genContent(r, l, wnow, 0.6), wnow)
	local := c.TmpDir()
	// a local "destination" tree for diff: B differs from A
	mustMkdir(filepath.Join(local, "d", caseDir, "cli"))
	os.WriteFile(filepath.Join(local, "d", relA), readFileOrNil(filepath.Join(served, relB)), 0644)
	// only ONE side may be missing in the missing-file scenarios (with both missing, which error wins is a race)
	os.WriteFile(filepath.Join(local, "d", caseDir, "cli", "nope.wsp"), readFileOrNil(filepath.Join(served, relB)), 0644)
	mustMkdir(filepath.Join(local, "d", caseDir, "emptyitem"))
	os.WriteFile(filepath.Join(local, "d", caseDir, "emptyitem", "x.wsp"), readFileOrNil(filepath.Join(served, relB)), 0644)

	sel := strconv.Itoa(r.Intn(len(l.Archs)+1) - 1)
	a0 := l.Archs[0]
	from, until := wnow-l.MaxRet()/2, wnow-a0.Ret()/3
	win := []string{"-from", tsArg(from), "-until", tsArg(until)}
	type cmdPair struct {
		name          string
		local, remote []string
	}
	pairs := []cmdPair{
		{"view", []string{"view", "-src-base", served, "-src", relA, "-archive", sel}, []string{"view", "-src-base", u, "-src", relA, "-archive", sel}},
		{"view-window", append([]string{"view", "-src-base", served, "-src", relA, "-archive", sel}, win...), append([]string{"view", "-src-base", u, "-src", relA, "-archive", sel}, win...)},
		{"view-raw", []string{"view-raw", "-src-base", served, "-src", relA, "-archive", sel, "-sort"}, []string{"view-raw", "-src-base", u, "-src", relA, "-archive", sel, "-sort"}},
		{"view-missing", []string{"view", "-src-base", served, "-src", caseDir + "/cli/nope.wsp"}, []string{"view", "-src-base", u, "-src", caseDir + "/cli/nope.wsp"}},
		{"view-raw-missing", []string{"view-raw", "-src-base", served, "-src", caseDir + "/cli/nope.wsp"}, []string{"view-raw", "-src-base", u, "-src", caseDir + "/cli/nope.wsp"}},
		{"sum", []string{"sum", "-src-base", served, "-item", caseDir + "/cli", "-src", "*.wsp", "-archive", sel}, []string{"sum", "-src-base", u, "-item", caseDir + "/cli", "-src", "*.wsp", "-archive", sel}},
		{"sum-nomatch", []string{"sum", "-src-base", served, "-item", caseDir + "/cli", "-src", "zz*.wsp"}, []string{"sum", "-src-base", u, "-item", caseDir + "/cli", "-src", "zz*.wsp"}},
		{"diff-remote-src", []string{"diff", "-src-base", served, "-src", relA, "-dest-base", filepath.Join(local, "d"), "-archive", sel}, []string{"diff", "-src-base", u, "-src", relA, "-dest-base", filepath.Join(local, "d"), "-archive", sel}},
		{"diff-remote-dest", []string{"diff", "-src-base", filepath.Join(local, "d"), "-src", relA, "-dest-base", served, "-archive", sel}, []string{"diff", "-src-base", filepath.Join(local, "d"), "-src", relA, "-dest-base", u, "-archive", sel}},
		{"diff-missing-remote-src", []string{"diff", "-src-base", served, "-src", caseDir + "/cli/nope.wsp", "-dest-base", filepath.Join(local, "d")}, []string{"diff", "-src-base", u, "-src", caseDir + "/cli/nope.wsp", "-dest-base", filepath.Join(local, "d")}},
		{"diff-glob-remote-src", []string{"diff", "-src-base", served, "-src", caseDir + "/cli/*.wsp", "-dest-base", filepath.Join(local, "d")}, []string{"diff", "-src-base", u, "-src", caseDir + "/cli/*.wsp", "-dest-base", filepath.Join(local, "d")}},
		{"sum-diff-remote-src", []string{"sum-diff", "-src-base", served, "-item", caseDir + "/cli", "-src", "*.wsp", "-dest-base", filepath.Join(local, "d"), "-dest", "one file.wsp"}, []string{"sum-diff", "-src-base", u, "-item", caseDir + "/cli", "-src", "*.wsp", "-dest-base", filepath.Join(local, "d"), "-dest", "one file.wsp"}},
		{"sum-diff-nomatch-src", []string{"sum-diff", "-src-base", served, "-item", caseDir + "/emptyitem", "-src", "*.wsp", "-dest-base", filepath.Join(local, "d"), "-dest", "x.wsp"}, []string{"sum-diff", "-src-base", u, "-item", caseDir + "/emptyitem", "-src", "*.wsp", "-dest-base", filepath.Join(local, "d"), "-dest", "x.wsp"}},
	}
	// a sample of the pairs per case
	r.Shuffle(len(pairs), func(i, j int) { pairs[i], pairs[j] = pairs[j], pairs[i] })
	for _, p := range pairs[:6] {
		var lres, rres cliResult
		okSec := false
		for try := 0; try < 6 && !okSec; try++ {
			ns := time.Now().Nanosecond()
			if ns > 300e6 {
				time.Sleep(time.Duration(1e9-ns) + 5*time.Millisecond)
			}
			lres = runCLI(c, p.local...)
			rres = runCLI(c, p.remote...)
			if c12RemoteCLIHung(c, p.name, lres, rres) {
				return
			}
			okSec = lres.T0 == rres.T1
			if !okSec {
				c.Count("discarded_unstable_second", 1)
			}
		}
		if !okSec {
			continue
		}
		c.Count("cli_pairs", 1)
		if strings.HasPrefix(p.name, "diff-remote") {
			c.Count("cli_diff_remote_side", 1)
		}
		det := fw.J{"pair": p.name, "local": lres.brief(), "remote": rres.brief()}
		if cliPanicked(lres) || cliPanicked(rres) {
			c.Violationf("panic", det, "%s panicked", p.name)
			return
		}
		// time:/duration lines and the wording of error messages are not part of the property
		norm := func(s string) string {
			return errTextRe.ReplaceAllString(timeLineRe.ReplaceAllString(s, ""), "err:<text>")
		}
		if lres.Exit != rres.Exit || norm(lres.Stdout) != norm(rres.Stdout) {
			c.Violationf("cli-remote-local-differ:"+p.name, det, "%s: exit %d vs %d; outputs %s", p.name, lres.Exit, rres.Exit, map[bool]string{true: "equal", false: "differ"}[norm(lres.Stdout) == norm(rres.Stdout)])
			return
		}
	}
	// copy from the directory and from the URL into two fresh destinations
	{
		d1, d2 := filepath.Join(local, "copy-local"), filepath.Join(local, "copy-remote")
		common := []string{"-src", relA, "-agg-method", model.MethodNames[l.Method], "-x-files-factor", strconv.FormatFloat(float64(l.Xff), 'g', -1, 32), "-retentions", l.RetentionString(), "-archive", sel}
		okSec := false
		var lres, rres cliResult
		for try := 0; try < 6 && !okSec; try++ {
			os.RemoveAll(d1)
			os.RemoveAll(d2)
			ns := time.Now().Nanosecond()
			if ns > 300e6 {
				time.Sleep(time.Duration(1e9-ns) + 5*time.Millisecond)
			}
			lres = runCLI(c, append([]string{"copy", "-src-base", served, "-dest-base", d1}, common...)...)
			rres = runCLI(c, append([]string{"copy", "-src-base", u, "-dest-base", d2}, common...)...)
			if c12RemoteCLIHung(c, "copy", lres, rres) {
				return
			}
			okSec = lres.T0 == rres.T1
		}
		if okSec {
			c.Count("cli_copy_pairs", 1)
			b1, b2 := readFileOrNil(filepath.Join(d1, relA)), readFileOrNil(filepath.Join(d2, relA))
			if lres.Exit != rres.Exit || !bytes.Equal(b1, b2) {
				c.Violationf("cli-remote-local-differ:copy", fw.J{"local": lres.brief(), "remote": rres.brief(), "first_diff": firstDiff(b1, b2)},
					"copy from the directory (exit %d) and from the URL (exit %d) produced different destinations (first difference at byte %d)", lres.Exit, rres.Exit, firstDiff(b1, b2))
			}
		}
	}
	// sum-copy (item globbing through /items, summing through /sum) from the directory and from the URL
	{
		d1, d2 := filepath.Join(local, "scopy-local"), filepath.Join(local, "scopy-remote")
		common := []string{"-item", caseDir + "/cl*", "-src", "*.wsp", "-dest", "sum.wsp", "-agg-method", model.MethodNames[l.Method], "-x-files-factor", strconv.FormatFloat(float64(l.Xff), 'g', -1, 32), "-retentions", l.RetentionString(), "-text-out", "", "-archive", sel}
		okSec := false
		var lres, rres cliResult
		for try := 0; try < 6 && !okSec; try++ {
			os.RemoveAll(d1)
			os.RemoveAll(d2)
			ns := time.Now().Nanosecond()
			if ns > 300e6 {
				time.Sleep(time.Duration(1e9-ns) + 5*time.Millisecond)
			}
			lres = runCLI(c, append([]string{"sum-copy", "-src-base", served, "-dest-base", d1}, common...)...)
			rres = runCLI(c, append([]string{"sum-copy", "-src-base", u, "-dest-base", d2}, common...)...)
			if c12RemoteCLIHung(c, "sum-copy", lres, rres) {
				return
			}
			okSec = lres.T0 == rres.T1
		}
		if okSec {
			c.Count("cli_copy_pairs", 1)
			rel := filepath.Join(caseDir, "cli", "sum.wsp")
			b1, b2 := readFileOrNil(filepath.Join(d1, rel)), readFileOrNil(filepath.Join(d2, rel))
			if lres.Exit != rres.Exit || (lres.Exit == 0 && (b1 == nil || !bytes.Equal(b1, b2))) {
				c.Violationf("cli-remote-local-differ:sum-copy", fw.J{"local": lres.brief(), "remote": rres.brief(), "first_diff": firstDiff(b1, b2)},
					"sum-copy from the directory (exit %d) and from the URL (exit %d) produced different destinations", lres.Exit, rres.Exit)
			}
		}
	}
	// glob copy (file globbing through /files) from the directory and from the URL
	{
		d1, d2 := filepath.Join(local, "gcopy-local"), filepath.Join(local, "gcopy-remote")
		common := []string{"-src", caseDir + "/cli/*.wsp", "-agg-method", model.MethodNames[l.Method], "-x-files-factor", strconv.FormatFloat(float64(l.Xff), 'g', -1, 32), "-retentions", l.RetentionString(), "-text-out", ""}
		okSec := false
		var lres, rres cliResult
		for try := 0; try < 6 && !okSec; try++ {
			os.RemoveAll(d1)
			os.RemoveAll(d2)
			ns := time.Now().Nanosecond()
			if ns > 300e6 {
				time.Sleep(time.Duration(1e9-ns) + 5*time.Millisecond)
			}
			lres = runCLI(c, append([]string{"copy", "-src-base", served, "-dest-base", d1}, common...)...)
			rres = runCLI(c, append([]string{"copy", "-src-base", u, "-dest-base", d2}, common...)...)
			if c12RemoteCLIHung(c, "copy", lres, rres) {
				return
			}
			okSec = lres.T0 == rres.T1
		}
		if okSec {
			c.Count("cli_copy_pairs", 1)
			for _, rel := range []string{relA, relB} {
				b1, b2 := readFileOrNil(filepath.Join(d1, rel)), readFileOrNil(filepath.Join(d2, rel))
				if lres.Exit != rres.Exit || b1 == nil || !bytes.Equal(b1, b2) {
					c.Violationf("cli-remote-local-differ:copy-glob", fw.J{"local": lres.brief(), "remote": rres.brief(), "file": rel, "first_diff": firstDiff(b1, b2)},
						"glob copy from the directory (exit %d) and from the URL (exit %d): destination %s differs or is missing", lres.Exit, rres.Exit, rel)
					break
				}
			}
		}
	}
	if so := serverOutput(c); strings.Contains(so, "panic serving") {
		c.Violationf("server-panic", fw.J{"server_output": truncStr(so[strings.Index(so, "panic serving"):], 3000)}, "the server panicked while answering a request")
	}
	_ = wt.Sum
	_ = nowLineRe
}

// c12ReadOnly compares a directory read and a server read, both done with the rights of uid 65534, of a file that user
// may only read.
func c12ReadOnly(c *fw.Ctx, l model.Layout, vnow int64) {
	r := c.Rng
	root := filepath.Join(c.TmpDir(), "ro")
	writeFixture(filepath.Join(root, "d", "f.wsp"), l, genContent(r, l, vnow, 0.6), vnow)
	os.Chmod(filepath.Join(root, "d", "f.wsp"), 0444)
	chmodUp(root, filepath.Dir(filepath.Dir(c.Env.Tmp)))
	os.Chmod(root, 0755)
	os.Chmod(filepath.Join(root, "d"), 0755)
	// the binaries must be reachable for that user
	bindir := filepath.Join(c.TmpDir(), "ro-bin")
	os.MkdirAll(bindir, 0755)
	os.Chmod(bindir, 0755)
	srvBin := filepath.Join(bindir, "whispertool")
	me := filepath.Join(bindir, "vcheck")
	exe, _ := os.Executable()
	for src, dst := range map[string]string{cliBin(c): srvBin, exe: me} {
		b, err := os.ReadFile(src)
		if err != nil || os.WriteFile(dst, b, 0755) != nil {
			return
		}
		os.Chmod(dst, 0755)
	}
	cmd, u, _, err := startServerIn(srvBin, root, "uid65534:"+root, os.Environ())
	if err != nil {
		return
	}
	defer stopServer(cmd)
	run := func(base string) string {
		ch := exec.Command(me, "child", "c12ro", base, "d/f.wsp", strconv.FormatInt(vnow, 10))
		ch.SysProcAttr = &syscall.SysProcAttr{Credential: &syscall.Credential{Uid: 65534, Gid: 65534}}
		out, _ := ch.CombinedOutput()
		return strings.TrimSpace(string(out))
	}
	lo, ro := run(root), run(u)
	c.Count("unprivileged_reads_of_a_read_only_file", 1)
	if lo == "" || ro == "" || strings.HasPrefix(lo, "HARNESS") || strings.HasPrefix(ro, "HARNESS") {
		return
	}
	if lo != ro {
		c.Violationf("remote-local-differ:view", fw.J{"file_mode": "0444 root", "reader_uid": 65534, "directory": truncStr(lo, 300), "server": truncStr(ro, 300)},
			"a file the user may read but not write: read through the directory gives %q, through a server run by the same user %q", truncStr(lo, 120), truncStr(ro, 120))
	}
}

// c12ReadOnlyChild (child role c12ro): one read, classified, printed.
func c12ReadOnlyChild(args []string) int {
	if len(args) < 3 {
		fmt.Println("HARNESS usage")
		return 0
	}
	now, _ := strconv.ParseInt(args[2], 10, 64)
	_, tl, err := wcmd.VerifReadWhisperFile(args[0], args[1], -1, 0, u32(now), u32(now))
	if err != nil {
		if os.IsNotExist(err) {
			fmt.Println("notexist")
		} else {
			fmt.Println("error")
		}
		return 0
	}
	h := sha256.New()
	for _, ts := range tl {
		if ts == nil {
			h.Write([]byte{0})
			continue
		}
		h.Write(ts.AppendTo(nil))
	}
	fmt.Printf("ok %x\n", h.Sum(nil)[:8])
	return 0
}

func init() { childRoles["c12ro"] = c12ReadOnlyChild }
