package props

import (
	"bufio"
	"bytes"
	"crypto/sha256"
	"encoding/hex"
	"encoding/json"
	"fmt"
	"io/ioutil"
	"math"
	"os"
	"os/exec"
	"path/filepath"
	"runtime"
	"strconv"
	"strings"
	"syscall"
	"time"

	wt "github.com/hnakamur/whispertool"

	"verifharness/fw"
	"verifharness/model"
)

// C05 Sync persistence: synced state survives reopen; unsynced changes stay off disk.

type c05 struct{}

func init() {
	fw.Register(c05{})
	childRoles["c05"] = c05Child
	childRoles["c05ro"] = c05ReadOnlyChild
}

func (c05) Meta() fw.Meta {
	return fw.Meta{
		ID: "C05",
		Rule: "case = (multi-page layout 3-40 pages, clock, history of 15-45 writes/clock advances with Sync after an op with probability 1/4). Monitors: " +
			"(1) after EVERY op the file is read through a separate descriptor: bytes must equal the image captured right after the last successful Sync (all-zero image of the final length before the first), length constant; " +
			"(2) right after each Sync an independent observer handle (no flock) and the harness' byte parser must see, for every archive and 6 windows, exactly the series the live handle returns; " +
			"(3a) the history is replayed up to 4 prefixes (incl. right after an unsynced page-straddling write) and the handle closed without Sync: file must equal the last synced image; " +
			"(3b) a child process executes the history emitting op/sync-begin/sync-end records and is SIGKILLed after a PRNG-chosen number of records or delay, uncoordinated: unless the last record is sync-begin the file must hash to the last sync-end record; " +
			"(4) the real copy / sum-copy / generate commands made to fail before their final Sync (-text-out /dev/full with > 4 KiB output, layout mismatch, corrupt source, existing destination) must leave an existing destination byte-identical; (5) every 8th history runs on a file whose second archive has a damaged (unaligned) first slot, so that updates write their point and then fail while propagating: the following Sync must still make the file equal to the handle's state. " +
			"non-trivial = history that dirtied a page-straddling slot and had a Sync with a non-contiguous dirty-page set; distinct by (layout, clock, ops)." +
			" Also: a handle whose Open had to wait for the lock of a handle with unsynced changes must see that handle's synced state; every 16th case writes one batch of 8200-25000 points (file bytes unchanged before Sync, equal to the handle after)." +
			" Abandonment alternates between Close-without-Sync and dropping the handle followed by two garbage collections; every 4th history and every 3rd abandonment replay uses a handle opened WithoutFlock." +
			" Also: Sync after an abandoning Close must not return nil; a file that lost its tail is byte-identical after Open; every 8th case lets a process of uid 65534 try a session on a 0444 file (Sync may only succeed if the file was written).",
		Assumptions: []string{
			"'survives' means visible to any other reader of the file system; power-loss durability of fsync is not observable from inside one kernel",
			"kills that land inside a Sync (last record sync-begin) are counted but not judged: the property speaks of points between Syncs",
			"clock domain as C01",
		},
		Obligations: []string{"ops_with_byte_check", "syncs", "observer_windows_compared", "page_straddle_slot_dirtied", "sync_noncontiguous_dirty_pages", "abandon_prefixes", "kills_between_syncs", "kills_before_first_sync", "cli_failed_copy_dest_unchanged", "unsynced_dirty_state_checked", "damaged_file_histories", "failed_updates_before_sync", "waiting_opener_trials", "waiting_opener_had_to_wait", "bulk_batches", "handles_dropped_and_collected", "histories_on_a_handle_without_flock", "opens_of_a_file_without_its_tail", "unprivileged_sessions_on_a_read_only_file"},
		Workers:     12,
	}
}

func (c05) Cases(tier string) int {
	if tier == "thorough" {
		return 30000
	}
	return 640
}

type c05rec struct {
	Ops  []Op         `json:"ops"`
	Sync []bool       `json:"sync"`
	L    model.Layout `json:"layout"`
	Now  int64        `json:"now"`
}

func sha(b []byte) string {
	h := sha256.Sum256(b)
	return hex.EncodeToString(h[:])
}

// c05Child executes a recorded history, reporting progress on stdout (a pipe).
func c05Child(args []string) int {
	if len(args) < 2 {
		return 2
	}
	b, err := ioutil.ReadFile(args[0])
	if err != nil {
		return 2
	}
	var rec c05rec
	if err := json.Unmarshal(b, &rec); err != nil {
		return 2
	}
	path := args[1]
	delay := time.Duration(0)
	if len(args) > 2 {
		var us int
		fmt.Sscanf(args[2], "%d", &us)
		delay = time.Duration(us) * time.Microsecond
	}
	out := os.Stdout
	db, err := createFile(path, rec.L)
	if err != nil {
		fmt.Fprintf(out, "error create %v\n", err)
		return 3
	}
	fmt.Fprintf(out, "created\n")
	now := rec.Now
	for k, op := range rec.Ops {
		fmt.Fprintf(out, "op %d\n", k)
		switch op.Kind {
		case "advance":
			now += op.Delta
		case "single":
			db.UpdatePointForArchive(op.Arch, wt.Timestamp(op.Pt.T), wt.Value(math.Float64frombits(op.Pt.Bits)), u32(now))
		case "batch":
			db.UpdatePointsForArchive(toPoints(op.Pts), op.Arch, u32(now))
		}
		if delay > 0 {
			time.Sleep(delay) // client-side pause between operations: widens the window for an uncoordinated kill
		}
		if rec.Sync[k] {
			fmt.Fprintf(out, "sync-begin %d\n", k)
			if err := db.Sync(); err != nil {
				fmt.Fprintf(out, "error sync %v\n", err)
				return 3
			}
			img, _ := ioutil.ReadFile(path)
			fmt.Fprintf(out, "sync-end %d %s\n", k, sha(img))
		}
	}
	fmt.Fprintf(out, "done\n")
	// stay alive so that a late kill still finds a process
	time.Sleep(50 * time.Millisecond)
	return 0
}

func pagesOfSlot(off int64, idx int) (int64, int64) {
	p := off + 12*int64(idx)
	return p / pageSize, (p + 11) / pageSize
}

func (c05) Run(c *fw.Ctx) {
	r := c.Rng
	if c.Index%8 == 7 {
		c05CLI(c)
		return
	}
	if c.Index%16 == 3 {
		if !c05Bulk(c) {
			return
		}
	}
	// multi-page layout
	l := genLayout(r, layoutOpts{minArch: 1, maxArch: 3, maxPoints0: 3000, multiPage: true, smallRatios: true})
	if r.Intn(3) == 0 {
		l.Archs[0].Points = uint32(1000 + r.Intn(12000))
		l.Archs = l.Archs[:1]
	}
	now0 := genClock(r, l)
	offs := l.Offsets()
	size := l.FileSize()
	path := filepath.Join(c.TmpDir(), "c05.wsp")

	nops := 15 + r.Intn(31)
	rec := c05rec{L: l, Now: now0}
	// main run with monitors 1 and 2
	var liveOpts []wt.Option
	if c.Index%4 == 2 {
		liveOpts = append(liveOpts, wt.WithoutFlock())
		c.Count("histories_on_a_handle_without_flock", 1)
	}
	db, err := createFile(path, l, liveOpts...)
	if err != nil {
		c.Violationf("create-failed", fw.J{"layout": l, "err": err.Error()}, "Create failed: %v", err)
		return
	}
	defer func() {
		if db != nil {
			db.Close()
		}
	}()
	synced := make([]byte, size) // image after the last successful Sync: all zero before the first
	// damaged mode: the first slot of archive 1 holds an unaligned timestamp, so updates of archive 0 write
	// their point into the page buffer and then FAIL while propagating. A following Sync must still make
	// the file equal to the handle's state.
	damaged := c.Index%8 == 5 && len(l.Archs) >= 2 && l.Archs[1].Step > 1
	if damaged {
		if err := db.Sync(); err != nil {
			panic(err)
		}
		db.Close()
		img, _ := ioutil.ReadFile(path)
		bad := uint32(model.AlignDown(now0, l.Archs[1].Step) + 1)
		img[offs[1]], img[offs[1]+1], img[offs[1]+2], img[offs[1]+3] = byte(bad>>24), byte(bad>>16), byte(bad>>8), byte(bad)
		if err := ioutil.WriteFile(path, img, 0644); err != nil {
			panic(err)
		}
		db, err = wt.Open(path)
		if err != nil {
			panic(err)
		}
		synced = img
		c.Count("damaged_file_histories", 1)
	}
	var syncedAfter [][]byte // per op index: the synced image in force after that op
	now := now0
	dirtyPages := map[int64]bool{}
	straddle, noncontig := false, false
	everSynced := false
	var headerBytes []byte
	for k := 0; k < nops && !c.Violated(); k++ {
		op := genOp(r, l, now, histOpts{noReopen: true, hostileValues: true, maxBatch: 25})
		if op.Kind == "sync" || op.Kind == "reopen" {
			op = Op{Kind: "advance", Delta: 1, Now: now + 1}
			if now+1 > int64(1)<<32-1-2*l.MaxStep()-1 {
				op = Op{Kind: "advance", Delta: 0, Now: now} // stay inside the clock domain
			}
		}
		if k == 1 {
			// directed: dirty a slot that straddles a page boundary (if the layout has one near the ring start)
			raw, _ := rawOf(db)
			for ai, a := range l.Archs {
				done := false
				for idx := 0; idx < int(a.Points) && idx < 4000; idx++ {
					if slotStraddlesPage(offs[ai], idx) {
						base := int64(raw[ai][0].T)
						var iv int64
						if base == 0 {
							break
						}
						// interval whose slot is idx
						cur := model.SlotIndex(uint32(base), model.AlignDown(now, a.Step), a)
						d := int64(idx - cur)
						iv = model.AlignDown(now, a.Step) + d*int64(a.Step)
						for iv > now {
							iv -= a.Ret()
						}
						if iv > now-a.Ret() {
							op = Op{Kind: "single", Arch: ai, Pt: model.PtBits{T: uint32(iv), Bits: math.Float64bits(42.5)}, Now: now}
							done = true
						}
						break
					}
				}
				if done {
					break
				}
			}
		}
		doSync := r.Intn(4) == 0 || k == nops-1
		if k == 0 {
			doSync = false
			if op.Kind == "advance" {
				op = Op{Kind: "single", Arch: 0, Pt: model.PtBits{T: uint32(now), Bits: math.Float64bits(1)}, Now: now}
			}
		}
		rec.Ops = append(rec.Ops, op)
		rec.Sync = append(rec.Sync, doSync)
		pre, _ := rawOf(db)
		switch op.Kind {
		case "advance":
			now += op.Delta
		case "single":
			if err := db.UpdatePointForArchive(op.Arch, wt.Timestamp(op.Pt.T), wt.Value(math.Float64frombits(op.Pt.Bits)), u32(now)); err != nil {
				if !damaged {
					c.Violationf("write-error", fw.J{"op": op, "err": err.Error()}, "write failed: %v", err)
					return
				}
				c.Count("failed_updates_before_sync", 1)
			}
		case "batch":
			if err := db.UpdatePointsForArchive(toPoints(op.Pts), op.Arch, u32(now)); err != nil {
				if !damaged {
					c.Violationf("write-error", fw.J{"op": op, "err": err.Error()}, "write failed: %v", err)
					return
				}
				c.Count("failed_updates_before_sync", 1)
			}
		}
		post, _ := rawOf(db)
		// which pages did this op dirty (by comparing raw states)
		for ai := range post {
			for idx := range post[ai] {
				if post[ai][idx] != pre[ai][idx] {
					p0, p1 := pagesOfSlot(offs[ai], idx)
					dirtyPages[p0], dirtyPages[p1] = true, true
					if p0 != p1 {
						straddle = true
						c.Count("page_straddle_slot_dirtied", 1)
					}
				}
			}
		}
		// monitor 1: bytes on disk == last synced image
		cur, err := ioutil.ReadFile(path)
		if err != nil {
			panic(err)
		}
		c.Count("ops_with_byte_check", 1)
		if len(dirtyPages) > 0 {
			c.Count("unsynced_dirty_state_checked", 1)
		}
		if int64(len(cur)) != size {
			c.Violationf("file-length-changed", fw.J{"layout": l, "len": len(cur), "want": size, "op_index": k}, "file length is %d, must stay %d", len(cur), size)
			return
		}
		if !bytes.Equal(cur, synced) {
			d := firstDiff(cur, synced)
			c.Violationf("bytes-changed-without-sync", fw.J{"layout": l, "now": now0, "ops": rec.Ops, "sync": rec.Sync, "op_index": k, "offset": d},
				"after op %d (%s, no Sync since) the file differs from the last synced image at byte %d", k, op.Kind, d)
			return
		}
		if doSync {
			// dirty-page-set shape before the flush
			if len(dirtyPages) >= 2 {
				var min, max int64 = math.MaxInt64, -1
				for p := range dirtyPages {
					if p < min {
						min = p
					}
					if p > max {
						max = p
					}
				}
				if max-min+1 > int64(len(dirtyPages)) {
					noncontig = true
					c.Count("sync_noncontiguous_dirty_pages", 1)
				}
			}
			if err := db.Sync(); err != nil {
				c.Violationf("sync-error", fw.J{"err": err.Error()}, "Sync failed: %v", err)
				return
			}
			c.Count("syncs", 1)
			dirtyPages = map[int64]bool{}
			img, _ := ioutil.ReadFile(path)
			if int64(len(img)) != size {
				c.Violationf("file-length-changed", fw.J{"layout": l, "len": len(img), "want": size}, "file length after Sync is %d, must stay %d", len(img), size)
				return
			}
			hs := int(l.HeaderSize())
			if !everSynced && damaged {
				headerBytes = append([]byte(nil), img[:hs]...)
				everSynced = true
			}
			if !everSynced {
				headerBytes = append([]byte(nil), img[:hs]...)
				if !bytes.Equal(headerBytes, model.EncodeHeader(l)) {
					c.Violationf("header-bytes-wrong", fw.J{"layout": l, "got": fmt.Sprintf("%x", headerBytes)}, "header on disk after the first Sync is not the requested one")
					return
				}
				everSynced = true
			} else if !bytes.Equal(img[:hs], headerBytes) {
				c.Violationf("header-bytes-changed", fw.J{"layout": l}, "header bytes changed after creation")
				return
			}
			synced = img
			// monitor 2: file parse == live raw; observer handle == live handle
			_, fraw, perr := model.ParseFile(img)
			if perr != nil {
				c.Violationf("synced-file-unparsable", fw.J{"err": perr.Error()}, "synced file does not parse: %v", perr)
				return
			}
			for ai := range fraw {
				if d := model.EqualSlots(fraw[ai], post[ai]); d >= 0 {
					c.Violationf("synced-file-differs-from-handle", fw.J{"layout": l, "now": now0, "ops": rec.Ops, "sync": rec.Sync, "archive": ai, "slot": d, "file": fraw[ai][d], "live": post[ai][d]},
						"after Sync archive %d slot %d on disk is %v, the live handle holds %v", ai, d, fraw[ai][d], post[ai][d])
					return
				}
			}
			obsDB, err := wt.Open(path, wt.WithoutFlock())
			if err != nil {
				c.Violationf("observer-open-failed", fw.J{"err": err.Error()}, "observer Open after Sync failed: %v", err)
				return
			}
			for ai, a := range l.Archs {
				for _, w := range genWindows(r, a, post[ai][0].T, now, 6) {
					t1, e1 := db.FetchFromArchive(ai, u32(w.From), u32(w.Until), u32(now))
					t2, e2 := obsDB.FetchFromArchive(ai, u32(w.From), u32(w.Until), u32(now))
					c.Count("observer_windows_compared", 1)
					if (e1 != nil) != (e2 != nil) || (t1 == nil) != (t2 == nil) {
						c.Violationf("observer-differs", fw.J{"archive": ai, "window": w}, "observer and live handle disagree on error/absence")
						continue
					}
					if t1 == nil || e1 != nil {
						continue
					}
					if t1.FromTime() != t2.FromTime() || t1.UntilTime() != t2.UntilTime() || t1.Step() != t2.Step() || valuesEqualBits(t1.Values(), t2.Values()) >= 0 {
						c.Violationf("observer-differs", fw.J{"layout": l, "now": now, "ops": rec.Ops, "sync": rec.Sync, "archive": ai, "window": w},
							"after Sync a second handle reads a different series for archive %d window [%d,%d]", ai, w.From, w.Until)
					}
				}
			}
			obsDB.Close()
		}
		syncedAfter = append(syncedAfter, synced)
	}
	db.Close()
	db = nil
	if c.Violated() {
		return
	}
	// after Close (the history ends with a Sync) the file still equals the last synced image
	if cur, _ := ioutil.ReadFile(path); !bytes.Equal(cur, synced) {
		c.Violationf("close-changed-file", fw.J{"layout": l}, "Close after the final Sync changed the file")
		return
	}

	if damaged {
		if straddle || noncontig {
			c.Nontrivial("damaged", l.String(), now0, fw.JSON(rec.Ops))
		}
		return // the replay-based monitors below start from a pristine file
	}
	// ---- monitor 3a: abandonment by Close without Sync at several prefixes
	prefixes := map[int]bool{}
	for len(prefixes) < minI(4, len(rec.Ops)) {
		prefixes[1+r.Intn(len(rec.Ops))] = true
	}
	// directed: the prefix ending right after the (unsynced) op index 1
	if len(rec.Ops) > 2 && !rec.Sync[1] {
		prefixes[2] = true
	}
	for n := range prefixes {
		p2 := filepath.Join(c.TmpDir(), fmt.Sprintf("c05-ab-%d.wsp", n))
		var abOpts []wt.Option
		if n%3 == 0 {
			abOpts = append(abOpts, wt.WithoutFlock()) // the option changes who may open the file, not when bytes reach it
			c.Count("abandoned_handles_without_flock", 1)
		}
		d2, err := createFile(p2, l, abOpts...)
		if err != nil {
			panic(err)
		}
		nw := now0
		unsyncedWrites := 0
		for k := 0; k < n; k++ {
			op := rec.Ops[k]
			switch op.Kind {
			case "advance":
				nw += op.Delta
			case "single":
				d2.UpdatePointForArchive(op.Arch, wt.Timestamp(op.Pt.T), wt.Value(math.Float64frombits(op.Pt.Bits)), u32(nw))
				unsyncedWrites++
			case "batch":
				d2.UpdatePointsForArchive(toPoints(op.Pts), op.Arch, u32(nw))
				unsyncedWrites++
			}
			if rec.Sync[k] && k < n-1 {
				d2.Sync()
				unsyncedWrites = 0
			} else if rec.Sync[k] && k == n-1 {
				// abandon right before this op's Sync
			}
		}
		how := "Close, no Sync"
		if n%2 == 0 {
			d2.Close() // abandoned
			if unsyncedWrites > 0 && n%4 == 0 {
				// a Sync that comes too late (the handle is closed) cannot have written the pending changes: it must say so
				if err := d2.Sync(); err == nil {
					if cur, _ := ioutil.ReadFile(p2); true {
						if _, fraw, perr := model.ParseFile(cur); perr == nil {
							if hraw, herr := rawOf(d2); herr != nil || model.EqualSlots(fraw[0], hraw[0]) >= 0 {
								c.Violationf("sync-reports-success-without-writing", fw.J{"layout": l, "prefix": n, "unsynced_writes": unsyncedWrites}, "Sync on a handle closed with %d unsynced writes returned nil, but the file does not hold the handle's state", unsyncedWrites)
								os.Remove(p2)
								return
							}
						}
					}
				}
				c.Count("syncs_after_close", 1)
			}
		} else {
			// dropped without Close: the handle becomes garbage and the collector runs (twice, finalizers in between)
			how = "dropped without Close, then GC"
			d2 = nil
			runtime.GC()
			time.Sleep(5 * time.Millisecond)
			runtime.GC()
			time.Sleep(5 * time.Millisecond)
			c.Count("handles_dropped_and_collected", 1)
		}
		want := make([]byte, size)
		// the synced image in force: after the last op k<n-1 with Sync
		for k := n - 2; k >= 0; k-- {
			if rec.Sync[k] {
				want = syncedAfter[k]
				break
			}
		}
		got, _ := ioutil.ReadFile(p2)
		c.Count("abandon_prefixes", 1)
		if !bytes.Equal(got, want) {
			d := firstDiff(got, want)
			c.Violationf("abandoned-handle-left-trace", fw.J{"layout": l, "now": now0, "ops": rec.Ops[:n], "sync": rec.Sync[:n], "prefix": n, "offset": d, "unsynced_writes": unsyncedWrites},
				"handle abandoned (%s) after %d ops with %d unsynced writes: file differs from the last synced image at byte %d", how, n, unsyncedWrites, d)
			os.Remove(p2)
			return
		}
		os.Remove(p2)
	}

	// ---- monitor 2c: a file that lost its tail (complete header, short data area): whatever Open says, opening it
	// changes neither its length nor a byte of it
	if c.Index%4 == 1 && len(synced) > int(l.HeaderSize())+24 {
		p4 := filepath.Join(c.TmpDir(), "c05-short.wsp")
		cut := synced[:int(l.HeaderSize())+12+r.Intn(len(synced)-int(l.HeaderSize())-12)]
		if err := ioutil.WriteFile(p4, cut, 0644); err != nil {
			panic(err)
		}
		if h, err := wt.Open(p4); err == nil {
			h.Close()
		}
		after, _ := ioutil.ReadFile(p4)
		c.Count("opens_of_a_file_without_its_tail", 1)
		os.Remove(p4)
		if !bytes.Equal(after, cut) {
			c.Violationf("open-changed-file", fw.J{"layout": l, "length_before": len(cut), "length_after": len(after)}, "Open of a file that lost its tail changed it (length %d -> %d) although nothing was synced", len(cut), len(after))
			return
		}
	}
	// ---- monitor 2d: a file the process may read but not write (mode 0444, process uid 65534): if a handle can be had
	// at all, a successful Sync on it means the file holds the handle's state
	if c.Index%8 == 3 {
		p5 := filepath.Join(c.TmpDir(), "c05-readonly.wsp")
		ioutil.WriteFile(p5, synced, 0444)
		os.Chmod(p5, 0444)
		chmodUp(c.TmpDir(), filepath.Dir(filepath.Dir(c.Env.Tmp)))
		out, err := exec.Command(os.Args[0], "child", "c05ro", p5, strconv.FormatInt(now, 10)).CombinedOutput()
		c.Count("unprivileged_sessions_on_a_read_only_file", 1)
		if strings.Contains(string(out), "SYNC-OK-BUT-FILE-UNCHANGED") {
			c.Violationf("sync-reports-success-without-writing", fw.J{"layout": l, "child_output": truncStr(string(out), 500)}, "a process that may only read the file opened it, updated it and Sync returned nil - the file is unchanged")
			return
		}
		_ = err
		os.Remove(p5)
	}
	// ---- monitor 2b: a handle whose Open had to wait for the lock of a handle with unsynced changes
	if c.Index%2 == 0 {
		p3 := filepath.Join(c.TmpDir(), "c05-wait.wsp")
		if err := ioutil.WriteFile(p3, synced, 0644); err != nil {
			panic(err)
		}
		diff, waited := waitingOpener(p3, l, now, r)
		c.Count("waiting_opener_trials", 1)
		if waited {
			c.Count("waiting_opener_had_to_wait", 1)
		}
		os.Remove(p3)
		if diff != "" {
			c.Violationf("handle-opened-after-sync-differs", fw.J{"layout": l, "now": now, "what": diff}, "a handle opened after the holder's Sync and Close does not see the synced state: %s", diff)
			return
		}
	}

	// ---- monitor 3b: child process killed at an uncoordinated point
	nk := 1
	if c.Tier == "thorough" {
		nk = 2
	}
	for q := 0; q < nk && !c.Violated(); q++ {
		c05Kill(c, rec, synced)
	}

	if straddle && noncontig {
		c.Nontrivial(l.String(), now0, fw.JSON(rec.Ops))
	}
	if c.Index < 64 {
		c.Sample(fw.J{"layout": l.String(), "file_pages": (size + pageSize - 1) / pageSize, "clock": now0, "ops": summarizeOps(rec.Ops, 6), "sync_after_op": rec.Sync})
	}
}

func firstDiff(a, b []byte) int {
	n := minI(len(a), len(b))
	for i := 0; i < n; i++ {
		if a[i] != b[i] {
			return i
		}
	}
	if len(a) != len(b) {
		return n
	}
	return -1
}

func c05Kill(c *fw.Ctx, rec c05rec, finalImg []byte) {
	r := c.Rng
	dir := c.TmpDir()
	opsFile := filepath.Join(dir, "c05-ops.json")
	b, _ := json.Marshal(rec)
	ioutil.WriteFile(opsFile, b, 0644)
	path := filepath.Join(dir, "c05-kill.wsp")
	os.Remove(path)
	exe, _ := os.Executable()
	childDelay := []int{0, 100, 500}[r.Intn(3)]
	cmd := exec.Command(exe, "child", "c05", opsFile, path, fmt.Sprint(childDelay))
	stdout, err := cmd.StdoutPipe()
	if err != nil {
		panic(err)
	}
	if err := cmd.Start(); err != nil {
		panic(err)
	}
	// total records the child would emit
	total := 2 + len(rec.Ops)
	for _, s := range rec.Sync {
		if s {
			total += 2
		}
	}
	killAfter := 1 + r.Intn(total)
	// number of records emitted before the first sync-begin: "created" + one per op up to the first synced op
	firstSync := 1
	for _, sflag := range rec.Sync {
		firstSync++
		if sflag {
			break
		}
	}
	mode := r.Intn(5)
	if mode == 0 {
		killAfter = 1 + r.Intn(firstSync) // early: before the first Sync starts
	}
	delay := time.Duration(r.Intn(400)) * time.Microsecond
	var lines []string
	rd := bufio.NewReader(stdout)
	killed := false
	for {
		line, err := rd.ReadString('\n')
		if line != "" {
			lines = append(lines, strings.TrimSpace(line))
		}
		if !killed && len(lines) >= killAfter && mode >= 3 && strings.HasPrefix(lines[len(lines)-1], "sync-begin") {
			continue // this mode aims between Syncs: wait for the sync-end record
		}
		if !killed && len(lines) >= killAfter {
			time.Sleep(delay) // lands somewhere inside the following operation(s)
			cmd.Process.Signal(syscall.SIGKILL)
			killed = true
		}
		if err != nil {
			break
		}
	}
	cmd.Wait()
	defer os.Remove(path)
	if len(lines) == 0 {
		c.Inconclusive("c05 child produced no records")
		return
	}
	for _, ln := range lines {
		if strings.HasPrefix(ln, "error") {
			c.Violationf("child-error", fw.J{"records": lines}, "child reported: %s", ln)
			return
		}
	}
	last := lines[len(lines)-1]
	if strings.HasPrefix(last, "sync-begin") {
		c.Count("kills_inside_sync_not_judged", 1)
		return
	}
	if last == "done" {
		c.Count("kills_after_completion", 1)
	}
	wantHash := ""
	for i := len(lines) - 1; i >= 0; i-- {
		if strings.HasPrefix(lines[i], "sync-end") {
			f := strings.Fields(lines[i])
			wantHash = f[2]
			break
		}
	}
	got, err := ioutil.ReadFile(path)
	if err != nil {
		if lines[0] != "created" {
			return
		}
		c.Violationf("killed-file-missing", fw.J{"records": lines}, "file missing after the child was killed: %v", err)
		return
	}
	if wantHash == "" {
		c.Count("kills_before_first_sync", 1)
		wantHash = sha(make([]byte, rec.L.FileSize()))
	} else {
		c.Count("kills_between_syncs", 1)
	}
	if sha(got) != wantHash {
		c.Violationf("killed-process-left-unsynced-bytes", fw.J{"layout": rec.L, "now": rec.Now, "ops": rec.Ops, "sync": rec.Sync, "records_tail": lines[maxInt(0, len(lines)-6):], "file_len": len(got)},
			"process killed after record %q: the file does not hash to the image of the last completed Sync", last)
	}
}

func maxInt(a, b int) int {
	if a > b {
		return a
	}
	return b
}

// c05CLI: a copy that fails before its final Sync leaves an existing destination untouched.
func c05CLI(c *fw.Ctx) {
	r := c.Rng
	dir := c.TmpDir()
	bin := filepath.Join(c.Env.BuildDir, "whispertool")
	l := model.Layout{Archs: []model.Arch{{Step: 1, Points: uint32(600 + r.Intn(600))}, {Step: 10, Points: uint32(200 + r.Intn(100))}}, Method: 2, Xff: 0}
	now := time.Now().Unix()
	mk := func(name string, lay model.Layout, seedVal float64) string {
		p := filepath.Join(dir, name)
		mustMkdir(filepath.Dir(p))
		db, err := createFile(p, lay)
		if err != nil {
			panic(err)
		}
		var pts []wt.Point
		for i := 0; i < 400; i++ {
			pts = append(pts, wt.Point{Time: u32(now - int64(i) - 5), Value: wt.Value(seedVal + float64(i))})
		}
		db.UpdatePointsForArchive(pts, 0, u32(now))
		db.Sync()
		db.Close()
		return p
	}
	mk("src/a.wsp", l, 1000)
	destPath := mk("dest/a.wsp", l, 5000)
	before, _ := ioutil.ReadFile(destPath)
	srcBefore, _ := ioutil.ReadFile(filepath.Join(dir, "src/a.wsp"))
	common := []string{"copy", "-src-base", filepath.Join(dir, "src"), "-src", "a.wsp", "-dest-base", filepath.Join(dir, "dest"), "-agg-method", "sum", "-x-files-factor", "0", "-retentions", l.RetentionString()}
	type sc struct {
		name string
		args []string
		prep func()
	}
	scen := []sc{
		{"text-out-dev-full", append(append([]string{}, common...), "-text-out", "/dev/full"), nil},
		{"layout-mismatch", func() []string {
			a := append([]string{}, common...)
			a[len(a)-1] = "1s:300s,10s:3000s"
			return a
		}(), func() {
			// source with another layout
			os.Remove(filepath.Join(dir, "src/a.wsp"))
			mk("src/a.wsp", model.Layout{Archs: []model.Arch{{Step: 1, Points: 300}, {Step: 10, Points: 300}}, Method: 2, Xff: 0}, 1000)
		}},
		{"corrupt-source", common, func() {
			ioutil.WriteFile(filepath.Join(dir, "src/a.wsp"), []byte("garbage garbage garbage garbage garbage"), 0644)
		}},
	}
	// sum-copy failing on the full text-out device
	mk("srcsum/it/a.wsp", l, 1000)
	mk("srcsum/it/b.wsp", l, 2000)
	mk("dest/it/sum.wsp", l, 5000)
	scen = append(scen, sc{"sum-copy-text-out-dev-full", []string{"sum-copy", "-src-base", filepath.Join(dir, "srcsum"), "-item", "it", "-src", "*.wsp", "-dest-base", filepath.Join(dir, "dest"), "-dest", "sum.wsp",
		"-agg-method", "sum", "-x-files-factor", "0", "-retentions", l.RetentionString(), "-text-out", "/dev/full"}, nil})
	scen = append(scen, sc{"generate-on-existing-destination", []string{"generate", "-dest", destPath, "-agg-method", "sum", "-x-files-factor", "0", "-retentions", l.RetentionString()}, nil})
	s := scen[r.Intn(len(scen))]
	if c.Index%40 == 15 {
		s = scen[len(scen)-1]
	}
	if s.name == "sum-copy-text-out-dev-full" {
		destPath = filepath.Join(dir, "dest/it/sum.wsp")
		before, _ = ioutil.ReadFile(destPath)
	}
	if c.Index%24 == 7 {
		s = scen[0]
	}
	if s.prep != nil {
		s.prep()
		srcBefore, _ = ioutil.ReadFile(filepath.Join(dir, "src/a.wsp"))
	}
	out, err := exec.Command(bin, s.args...).CombinedOutput()
	after, _ := ioutil.ReadFile(destPath)
	srcAfter, _ := ioutil.ReadFile(filepath.Join(dir, "src/a.wsp"))
	detail := fw.J{"scenario": s.name, "args": s.args, "output": truncStr(string(out), 600), "err": fmt.Sprint(err)}
	if err == nil {
		c.Violationf("cli-failure-not-reported:"+s.name, detail, "copy (%s) exited 0", s.name)
		return
	}
	if bytes.Contains(out, []byte("panic:")) {
		c.Violationf("cli-panic:"+s.name, detail, "copy panicked")
		return
	}
	if !bytes.Equal(srcBefore, srcAfter) {
		c.Violationf("cli-source-modified:"+s.name, detail, "copy modified its source")
	}
	if !bytes.Equal(before, after) {
		c.Violationf("cli-failed-copy-modified-destination:"+s.name, detail, "copy failed (%s) but the existing destination changed at byte %d", s.name, firstDiff(before, after))
		return
	}
	c.Count("cli_failed_copy_dest_unchanged", 1)
	c.Nontrivial("cli", s.name, c.Index)
	c.Sample(fw.J{"cli_scenario": s.name, "args": s.args})
}

// c05Bulk: one batch of many thousands of points into a long archive. Nothing may reach the file before Sync
// (a handle abandoned after the batch leaves the last synced image), and Sync must write all of it.
func c05Bulk(c *fw.Ctx) bool {
	r := c.Rng
	n0 := uint32(9000 + r.Intn(16000))
	l := model.Layout{Archs: []model.Arch{{Step: 1, Points: n0}}, Method: 1 + r.Intn(6), Xff: 0.5}
	if r.Intn(2) == 0 {
		l.Archs = append(l.Archs, model.Arch{Step: 60, Points: n0/60 + uint32(2+r.Intn(400))})
	}
	now := genClock(r, l)
	path := filepath.Join(c.TmpDir(), "c05-bulk.wsp")
	db, err := createFile(path, l)
	if err != nil {
		panic(err)
	}
	defer db.Close()
	db.UpdatePointForArchive(0, u32(now), 1, u32(now))
	if err := db.Sync(); err != nil {
		panic(err)
	}
	img0, _ := ioutil.ReadFile(path)
	np := 8200 + r.Intn(int(n0)-8200)
	pts := make([]wt.Point, 0, np)
	for j := 0; j < np; j++ {
		pts = append(pts, wt.Point{Time: wt.Timestamp(now - int64(j)), Value: wt.Value(float64(j) + 0.5)})
	}
	r.Shuffle(len(pts), func(i, j int) { pts[i], pts[j] = pts[j], pts[i] })
	if err := db.UpdatePointsForArchive(pts, 0, u32(now)); err != nil {
		c.Violationf("write-error", fw.J{"layout": l, "err": err.Error()}, "bulk batch failed: %v", err)
		return false
	}
	c.Count("bulk_batches", 1)
	c.Count("bulk_batch_points", int64(np))
	img1, _ := ioutil.ReadFile(path)
	if d := firstDiff(img0, img1); d >= 0 {
		c.Violationf("bytes-changed-without-sync", fw.J{"layout": l, "now": now, "batch_points": np, "offset": d},
			"one batch of %d points changed the file at byte %d before any Sync", np, d)
		return false
	}
	raw, rerr := rawOf(db)
	if rerr != nil {
		panic(rerr)
	}
	if err := db.Sync(); err != nil {
		c.Violationf("sync-error", fw.J{"err": err.Error()}, "Sync failed: %v", err)
		return false
	}
	_, fraw, _, perr := rawOfFile(path)
	if perr != nil {
		c.Violationf("synced-file-unparsable", fw.J{"err": perr.Error()}, "synced file does not parse: %v", perr)
		return false
	}
	for ai := range raw {
		if d := model.EqualSlots(fraw[ai], raw[ai]); d >= 0 {
			c.Violationf("synced-file-differs-from-handle", fw.J{"layout": l, "now": now, "batch_points": np, "archive": ai, "slot": d},
				"after the bulk batch and Sync archive %d slot %d on disk is %v, the live handle holds %v", ai, d, fraw[ai][d], raw[ai][d])
			return false
		}
	}
	return true
}

// c05ReadOnlyChild (child role c05ro): drops to uid 65534 and tries a session on a file it may only read.
func c05ReadOnlyChild(args []string) int {
	if len(args) < 2 {
		return 2
	}
	path := args[0]
	now, _ := strconv.ParseInt(args[1], 10, 64)
	if err := syscall.Setgid(65534); err != nil {
		fmt.Println("setgid:", err)
	}
	if err := syscall.Setuid(65534); err != nil {
		fmt.Println("setuid:", err)
		return 0
	}
	before, _ := ioutil.ReadFile(path)
	db, err := wt.Open(path)
	if err != nil {
		fmt.Println("OPEN-REFUSED:", err)
		return 0
	}
	defer db.Close()
	if err := db.UpdatePointForArchive(0, u32(now), 424242.5, u32(now)); err != nil {
		fmt.Println("UPDATE-REFUSED:", err)
		return 0
	}
	if err := db.Sync(); err != nil {
		fmt.Println("SYNC-REFUSED:", err)
		return 0
	}
	after, _ := ioutil.ReadFile(path)
	if bytes.Equal(before, after) {
		fmt.Println("SYNC-OK-BUT-FILE-UNCHANGED")
	} else {
		fmt.Println("SYNC-OK-FILE-WRITTEN")
	}
	return 0
}
