package props

import (
	"bytes"
	"context"
	"encoding/binary"
	"fmt"
	"io/ioutil"
	"math"
	"math/rand"
	"net"
	"net/http"
	"net/http/httptest"
	"os"
	"os/exec"
	"path/filepath"
	"runtime"
	"runtime/debug"
	"strings"
	"sync"
	"syscall"
	"time"

	wt "github.com/hnakamur/whispertool"
	wcmd "github.com/hnakamur/whispertool/cmd"

	"verifharness/fw"
	"verifharness/model"
)

// C15 Corrupt or hostile bytes are rejected with an error, never a crash.

type c15 struct{}

func init() { fw.Register(c15{}) }

func (c15) Meta() fw.Meta {
	return fw.Meta{
		ID: "C15",
		Rule: "case = 120 hostile inputs: (a) the eight decoders (Header/TimeSeries/Points/Point/Value/Timestamp/Duration/ArchiveInfo.TakeFrom) on random bytes, valid encodings with bit flips / truncations, and count/step/size fields forced to 0, 1, 2^31-1, 2^31, 2^32-1, ceil(2^32/12), ceil(2^64/12), 2^63, 2^64-1; " +
			"(b) the client-side framing loops of view/view-raw/sum fed by a stub HTTP server returning such bytes; (c) Open on files with mutated headers, truncated/extended length, garbage archive regions (unaligned, huge, zero timestamps); " +
			"(d) on every handle that opened: Fetch, FetchFromArchive on every archive and window class, GetAllRawUnsortedPoints, Update, UpdateMany. " +
			"monitors: recovered panics and worker deaths (process under RLIMIT_AS), per-call runtime.MemStats.TotalAlloc delta <= 64 KiB + 8*len(input) for decoders and <= 256 KiB + 8*fileSize for file operations, 30 s watchdog per call, result must be an error or an object that re-encodes to the consumed bytes. " +
			"non-trivial = input that was accepted by a decoder/Open AND differs from every generated valid encoding, or was rejected after passing the first size check; distinct by input hash." +
			" Also: malformed /files and /items listings (no final newline, CRLF, NUL separators, empty and 70 kB lines) through real HTTP; after every rejected Open a second Open of the same file under a 30 s watchdog with GC disabled." +
			" Every 4th case talks to a raw-socket peer announcing 2^30..2^63-1 body bytes, sending 16 and closing (all five clients); every 4th case sums an item of 18-47 files nearly all of which are corrupt; remote client calls name archive ids -2..5 as well as -1." +
			" Every 4th case runs the real view-raw command against responses that decode cleanly but contradict their header (more points than the archive has; millions of points declared).",
		Assumptions: []string{
			"worker address space limited to 6 GiB (RLIMIT_AS); a runtime out-of-memory abort is attributed to the case logged last",
			"allocation is measured as the TotalAlloc delta around a call made from the only running harness goroutine",
			"a >30 s call on a <= 64 KiB input counts as a hang",
		},
		Obligations: []string{"decoder_calls", "decoder_errors", "decoder_accepts", "extreme_count_inputs", "open_calls", "open_rejected", "open_accepted_damaged", "handle_ops_on_damaged", "handle_op_errors", "remote_client_calls", "remote_client_errors", "alloc_checked", "remote_list_client_calls", "second_open_after_rejection", "calls_to_a_peer_announcing_a_huge_body", "sums_over_mostly_corrupt_items", "remote_client_calls_naming_an_archive", "view_raw_command_on_inconsistent_responses"},
		Workers:     8,
	}
}

func (c15) Cases(tier string) int {
	if tier == "thorough" {
		return 25000
	}
	return 400
}

func (c15) SetupWorker(w *fw.WorkerEnv) (func(), error) {
	lim := syscall.Rlimit{Cur: 6 << 30, Max: 6 << 30}
	if err := syscall.Setrlimit(syscall.RLIMIT_AS, &lim); err != nil {
		return nil, fmt.Errorf("setrlimit: %v", err)
	}
	debug.SetGCPercent(50)
	return nil, nil
}

var extremes = []uint64{0, 1, 2, 1<<31 - 1, 1 << 31, 1<<32 - 1, 357913942, 0x15555556, 1537228672809129302, 1 << 63, 1<<64 - 1, 0x1555555555555556, 0x2aaaaaaaaaaaaaab, 1 << 62, 0xaaaaaaab, 0x100000000, 1<<63 - 1}

// guarded runs f with panic recovery, an allocation meter and a watchdog.
// It returns the recovered panic (nil if none), the allocation delta and whether it hung.
func guarded(f func()) (pan interface{}, stack string, alloc uint64, hung bool) {
	done := make(chan struct{})
	var ms0, ms1 runtime.MemStats
	runtime.ReadMemStats(&ms0)
	go func() {
		defer close(done)
		defer func() {
			if r := recover(); r != nil {
				pan = r
				stack = string(debug.Stack())
			}
		}()
		f()
	}()
	select {
	case <-done:
	case <-time.After(30 * time.Second):
		return nil, "", 0, true
	}
	runtime.ReadMemStats(&ms1)
	return pan, stack, ms1.TotalAlloc - ms0.TotalAlloc, false
}

// guardedAlloc is guarded plus noise rejection for the allocation meter: TotalAlloc is process-wide
// (HTTP keep-alive goroutines, timers), so a reading above the limit is re-measured twice and the
// minimum is used; a real over-allocation is deterministic and survives.
func guardedAlloc(limit uint64, f func()) (pan interface{}, stack string, alloc uint64, hung bool) {
	pan, stack, alloc, hung = guarded(f)
	if hung || pan != nil || alloc <= limit {
		return
	}
	for k := 0; k < 2; k++ {
		runtime.GC()
		p2, s2, a2, h2 := guarded(f)
		if h2 || p2 != nil {
			return p2, s2, a2, h2
		}
		if a2 < alloc {
			alloc = a2
		}
	}
	return
}

type c15input struct {
	Kind string `json:"kind"`
	Hex  string `json:"hex"`
	Len  int    `json:"len"`
	How  string `json:"how"`
}

func describeInput(kind, how string, b []byte) c15input {
	return c15input{Kind: kind, Hex: fmt.Sprintf("%x", b[:minI(len(b), 96)]), Len: len(b), How: how}
}

func mutate(r *rand.Rand, b []byte) ([]byte, string) {
	b = append([]byte(nil), b...)
	switch r.Intn(6) {
	case 0:
		if len(b) > 0 {
			n := 1 + r.Intn(3)
			for i := 0; i < n; i++ {
				b[r.Intn(len(b))] ^= 1 << uint(r.Intn(8))
			}
		}
		return b, "bitflip"
	case 1:
		if len(b) > 0 {
			return b[:r.Intn(len(b))], "truncate"
		}
		return b, "truncate"
	case 2:
		// force a 32-bit field to an extreme
		if len(b) >= 4 {
			off := 4 * r.Intn(minI(len(b)/4, 10))
			binary.BigEndian.PutUint32(b[off:], uint32(extremes[r.Intn(len(extremes))]))
		}
		return b, "extreme32"
	case 3:
		if len(b) >= 8 {
			off := 4 * r.Intn(minI((len(b)-4)/4, 8))
			binary.BigEndian.PutUint64(b[off:], extremes[r.Intn(len(extremes))])
		}
		return b, "extreme64"
	case 4:
		extra := make([]byte, r.Intn(64))
		r.Read(extra)
		return append(b, extra...), "extend"
	default:
		if len(b) > 0 {
			i := r.Intn(len(b))
			n := minI(len(b)-i, 1+r.Intn(8))
			r.Read(b[i : i+n])
		}
		return b, "garble"
	}
}

func c15ValidEncoding(r *rand.Rand, kind int) ([]byte, string) {
	switch kind {
	case 0:
		l := genLayout(r, layoutOpts{maxPoints0: 500})
		return model.EncodeHeader(l), "header"
	case 1:
		n := r.Intn(30)
		step := uint32(1 + r.Intn(600))
		from := r.Uint32() / 2
		b := make([]byte, 12+8*n)
		binary.BigEndian.PutUint32(b[0:], from)
		binary.BigEndian.PutUint32(b[4:], from+uint32(n)*step)
		binary.BigEndian.PutUint32(b[8:], step)
		for i := 0; i < n; i++ {
			binary.BigEndian.PutUint64(b[12+8*i:], r.Uint64())
		}
		return b, "timeseries"
	case 2:
		n := r.Intn(30)
		b := make([]byte, 8+12*n)
		binary.BigEndian.PutUint64(b, uint64(n))
		r.Read(b[8:])
		return b, "points"
	case 3:
		b := make([]byte, 12)
		r.Read(b)
		return b, "point"
	case 4:
		b := make([]byte, 8)
		r.Read(b)
		return b, "value"
	case 5:
		b := make([]byte, 4)
		r.Read(b)
		return b, "timestamp"
	case 6:
		b := make([]byte, 4)
		r.Read(b)
		return b, "duration"
	default:
		b := make([]byte, 12)
		r.Read(b)
		return b, "archiveinfo"
	}
}

// decodeWith runs the decoder of the given kind and returns (consumed bytes re-encoded, rest, err).
func decodeWith(kind string, in []byte) (re []byte, rest []byte, err error) {
	switch kind {
	case "header":
		var h wt.Header
		rest, err = h.TakeFrom(in)
		if err == nil {
			re = h.AppendTo(nil)
			_ = h.String()
			_ = h.ExpectedFileSize()
		}
	case "timeseries":
		var ts wt.TimeSeries
		rest, err = ts.TakeFrom(in)
		if err == nil {
			re = ts.AppendTo(nil)
			_ = ts.Points()
		}
	case "points":
		var p wt.Points
		rest, err = p.TakeFrom(in)
		if err == nil {
			re = p.AppendTo(nil)
		}
	case "point":
		var p wt.Point
		rest, err = p.TakeFrom(in)
		if err == nil {
			re = p.AppendTo(nil)
		}
	case "value":
		var v wt.Value
		rest, err = v.TakeFrom(in)
		if err == nil {
			re = v.AppendTo(nil)
		}
	case "timestamp":
		var t wt.Timestamp
		rest, err = t.TakeFrom(in)
		if err == nil {
			re = t.AppendTo(nil)
		}
	case "duration":
		var d wt.Duration
		rest, err = d.TakeFrom(in)
		if err == nil {
			re = d.AppendTo(nil)
		}
	case "archiveinfo":
		var a wt.ArchiveInfo
		rest, err = a.TakeFrom(in)
		if err == nil {
			re = a.AppendTo(nil)
		}
	}
	return
}

func (c15) Run(c *fw.Ctx) {
	r := c.Rng
	// stub server for the client-side decoders
	var body []byte
	srv := httptest.NewServer(http.HandlerFunc(func(w http.ResponseWriter, req *http.Request) {
		w.Header().Set("Content-Type", "application/octet-stream")
		w.Write(body)
	}))
	defer srv.Close()

	// a peer that announces a huge body, sends a few bytes and closes (raw socket: net/http would not let a handler lie)
	if c.Index%4 == 0 {
		c15LyingPeer(c)
		if c.Violated() {
			return
		}
	}
	// sums over an item most of whose files are corrupt: an error, not a hang
	if c.Index%4 == 1 {
		c15CorruptItem(c)
		if c.Violated() {
			return
		}
	}
	// the view-raw COMMAND (not only its decoder) against responses that decode cleanly but are inconsistent: more points
	// than the header's archive has room for; a header declaring millions of points followed by a handful
	if c.Index%4 == 2 {
		c15ViewRawCommand(c, srv.URL, &body)
		if c.Violated() {
			return
		}
	}
	var sampleIn []c15input
	for j := 0; j < 120 && !c.Violated(); j++ {
		switch {
		case j%3 == 0: // ---- (a) decoders
			kind := r.Intn(8)
			valid, name := c15ValidEncoding(r, kind)
			in, how := valid, "valid"
			switch r.Intn(8) {
			case 0:
				in = make([]byte, r.Intn(200))
				r.Read(in)
				how = "random"
			case 1: // directed extreme counts
				switch name {
				case "header":
					in = append([]byte(nil), valid...)
					binary.BigEndian.PutUint32(in[12:], uint32(extremes[r.Intn(len(extremes))]))
					how = "extreme-archive-count"
				case "points":
					in = append([]byte(nil), valid...)
					binary.BigEndian.PutUint64(in[0:], extremes[r.Intn(len(extremes))])
					how = "extreme-point-count"
				case "timeseries":
					in = append([]byte(nil), valid...)
					binary.BigEndian.PutUint32(in[4*r.Intn(3):], uint32(extremes[r.Intn(len(extremes))]))
					how = "extreme-series-field"
				default:
					in, how = mutate(r, valid)
				}
				c.Count("extreme_count_inputs", 1)
			case 2:
				// valid: must be accepted and re-encode
			default:
				in, how = mutate(r, valid)
				if r.Intn(3) == 0 {
					in, _ = mutate(r, in)
					how += "+"
				}
			}
			di := describeInput(name, how, in)
			if len(sampleIn) < 5 {
				sampleIn = append(sampleIn, di)
			}
			var re, rest []byte
			var err error
			pan, stack, alloc, hung := guardedAlloc(uint64(64<<10+8*len(in)), func() { re, rest, err = decodeWith(name, in) })
			c.Count("decoder_calls", 1)
			if hung {
				c.Violationf("hang:decoder:"+name, di, "%s.TakeFrom did not return within 30 s on a %d-byte input", name, len(in))
				return
			}
			if pan != nil {
				c.Violationf("panic:decoder:"+name+":"+fw.PanicSite(stack), fw.J{"input": di, "panic": fmt.Sprint(pan), "stack": truncStr(stack, 3000)}, "%s.TakeFrom panicked on %d bytes (%s): %v", name, len(in), how, pan)
				return
			}
			c.Count("alloc_checked", 1)
			if limit := uint64(64<<10 + 8*len(in)); alloc > limit {
				c.Violationf("alloc:decoder:"+name, fw.J{"input": di, "alloc": alloc, "limit": limit}, "%s.TakeFrom allocated %d bytes for a %d-byte input (limit %d)", name, alloc, len(in), limit)
				return
			}
			if err != nil {
				c.Count("decoder_errors", 1)
				if how != "valid" && len(in) >= 16 {
					c.Nontrivial(name, di.Hex, len(in))
				}
			} else {
				c.Count("decoder_accepts", 1)
				consumed := len(in) - len(rest)
				if consumed < 0 || consumed > len(in) || !bytes.Equal(re, in[:consumed]) {
					c.Violationf("accepted-object-malformed:"+name, fw.J{"input": di, "consumed": consumed, "reencoded": fmt.Sprintf("%x", re[:minI(len(re), 96)])}, "%s.TakeFrom accepted %d bytes but the object re-encodes differently", name, consumed)
					return
				}
				if how != "valid" {
					c.Nontrivial(name, di.Hex, len(in))
				}
			}
			if how == "valid" && err != nil {
				c.Violationf("valid-encoding-rejected:"+name, fw.J{"input": di, "err": err.Error()}, "%s.TakeFrom rejected a valid encoding: %v", name, err)
			}

		case j%3 == 1 && j%4 == 1: // ---- (b') the text listings of /files and /items, malformed in every way a body can be
			var parts []string
			for k, n := 0, r.Intn(6); k < n; k++ {
				switch r.Intn(6) {
				case 0:
					parts = append(parts, "")
				case 1:
					parts = append(parts, strings.Repeat("x", r.Intn(70000)))
				case 2:
					b := make([]byte, r.Intn(40))
					r.Read(b)
					parts = append(parts, string(b))
				default:
					parts = append(parts, fmt.Sprintf("dir%d/file %d.wsp", k, r.Intn(100)))
				}
			}
			sep := []string{"\n", "\r\n", "\n\n", "\x00"}[r.Intn(4)]
			body = []byte(strings.Join(parts, sep))
			how := "list-without-final-newline"
			if r.Intn(3) == 0 {
				body = append(body, '\n')
				how = "list-with-final-newline"
			}
			if len(parts) == 0 {
				how = "empty-list"
			}
			name := "client:files"
			items := r.Intn(2) == 0
			if items {
				name = "client:items"
			}
			di := describeInput(name, how, body)
			var got []string
			var err error
			pan, stack, alloc, hung := guardedAlloc(uint64(1<<20+16*len(body)), func() {
				if items {
					got, err = wcmd.VerifGlobItems(srv.URL, "x*")
				} else {
					got, err = wcmd.VerifGlobFiles(srv.URL, "x*/*.wsp")
				}
			})
			c.Count("remote_list_client_calls", 1)
			if hung {
				c.Violationf("hang:"+name, di, "the %s client did not return within 30 s on a %d-byte listing (%s)", name, len(body), how)
				return
			}
			if pan != nil {
				c.Violationf("panic:"+name+":"+fw.PanicSite(stack), fw.J{"input": di, "panic": fmt.Sprint(pan), "stack": truncStr(stack, 3000)}, "%s client panicked on a %d-byte listing (%s): %v", name, len(body), how, pan)
				return
			}
			c.Count("alloc_checked", 1)
			if limit := uint64(1<<20 + 16*len(body)); alloc > limit {
				c.Violationf("alloc:"+name, fw.J{"input": di, "alloc": alloc, "limit": limit, "names": len(got)}, "%s client allocated %d bytes for a %d-byte listing", name, alloc, len(body))
				return
			}
			_ = err
			c.Nontrivial(name, di.Hex, len(body))

		case j%3 == 1: // ---- (b) client-side framing loops through real HTTP
			l := genLayout(r, layoutOpts{maxPoints0: 200})
			body = model.EncodeHeader(l)
			raw := r.Intn(2) == 0
			for range l.Archs {
				if raw {
					v, _ := c15ValidEncoding(r, 2)
					body = append(body, v...)
				} else {
					v, _ := c15ValidEncoding(r, 1)
					body = append(body, v...)
				}
			}
			how := "valid"
			if r.Intn(6) != 0 {
				if r.Intn(3) == 0 {
					// directed: extreme count right behind the header
					off := len(model.EncodeHeader(l))
					if raw {
						binary.BigEndian.PutUint64(body[off:], extremes[r.Intn(len(extremes))])
						how = "extreme-point-count"
					} else {
						binary.BigEndian.PutUint32(body[off+4*r.Intn(3):], uint32(extremes[r.Intn(len(extremes))]))
						how = "extreme-series-field"
					}
					c.Count("extreme_count_inputs", 1)
				} else {
					body, how = mutate(r, body)
				}
			}
			name := "client:view"
			if raw {
				name = "client:view-raw"
			}
			di := describeInput(name, how, body)
			var err error
			// the archive the client asks for is the client's business: the response need not have that many
			reqArch := []int{-1, -1, 0, 1, 2, 5, -2}[r.Intn(7)]
			which := r.Intn(2)
			pan, stack, alloc, hung := guardedAlloc(uint64(1<<20+16*len(body)), func() {
				if raw {
					_, _, err = wcmd.VerifReadWhisperFileRaw(srv.URL, "a.wsp", reqArch)
				} else if which == 0 {
					_, _, err = wcmd.VerifReadWhisperFile(srv.URL, "a.wsp", reqArch, 0, 1700000000, 1700000000)
				} else {
					_, _, err = wcmd.VerifSumWhisperFile(srv.URL, "item", "*.wsp", reqArch, 0, 1700000000, 1700000000)
				}
			})
			if reqArch != -1 {
				c.Count("remote_client_calls_naming_an_archive", 1)
			}
			c.Count("remote_client_calls", 1)
			if hung {
				c.Violationf("hang:"+name, di, "remote client did not return within 30 s")
				return
			}
			if pan != nil {
				c.Violationf("panic:"+name+":"+fw.PanicSite(stack), fw.J{"input": di, "panic": fmt.Sprint(pan), "stack": truncStr(stack, 3000)}, "%s client panicked on a %d-byte response (%s): %v", name, len(body), how, pan)
				return
			}
			// HTTP machinery allocates on its own; allow 1 MiB on top
			c.Count("alloc_checked", 1)
			if limit := uint64(1<<20 + 16*len(body)); alloc > limit {
				c.Violationf("alloc:"+name, fw.J{"input": di, "alloc": alloc, "limit": limit}, "%s client allocated %d bytes for a %d-byte response", name, alloc, len(body))
				return
			}
			if err != nil {
				c.Count("remote_client_errors", 1)
			}
			if how != "valid" {
				c.Nontrivial(name, di.Hex, len(body))
			}

		default: // ---- (c)+(d) hostile files
			c15File(c, r, j)
		}
	}
	if c.Index < 64 {
		c.Sample(fw.J{"inputs": sampleIn})
	}
}

func truncStr(s string, n int) string {
	if len(s) > n {
		return s[:n]
	}
	return s
}

func c15File(c *fw.Ctx, r *rand.Rand, j int) {
	l := genLayout(r, layoutOpts{maxPoints0: 400})
	now := genClock(r, l)
	// start from a real file with some content
	path := filepath.Join(c.TmpDir(), fmt.Sprintf("c15-%d.wsp", j))
	db, err := createFile(path, l)
	if err != nil {
		panic(err)
	}
	for i := 0; i < 5; i++ {
		op := genOp(r, l, now, histOpts{noReopen: true})
		if op.Kind == "single" {
			db.UpdatePointForArchive(op.Arch, wt.Timestamp(op.Pt.T), wt.Value(math.Float64frombits(op.Pt.Bits)), u32(now))
		} else if op.Kind == "batch" {
			db.UpdatePointsForArchive(toPoints(op.Pts), op.Arch, u32(now))
		}
	}
	db.Sync()
	db.Close()
	img, err := ioutil.ReadFile(path)
	if err != nil {
		panic(err)
	}
	hsz := int(l.HeaderSize())
	how := ""
	switch r.Intn(10) {
	case 0: // header mutated
		h, hw := mutate(r, img[:hsz])
		if len(h) == hsz {
			copy(img, h)
		} else {
			img = append(h, img[minI(hsz, len(img)):]...)
		}
		how = "header-" + hw
	case 1: // truncated
		img = img[:r.Intn(len(img))]
		how = "truncated"
	case 2: // extended
		extra := make([]byte, r.Intn(5000))
		r.Read(extra)
		img = append(img, extra...)
		how = "extended"
	case 3: // archive region garbage
		r.Read(img[hsz:])
		how = "garbage-archives"
	case 4: // unaligned / odd first-slot timestamps
		offs := l.Offsets()
		for i, a := range l.Archs {
			var t uint32
			switch r.Intn(5) {
			case 0:
				t = uint32(now) - uint32(r.Intn(int(a.Step)+1)) // near now, usually unaligned
			case 1:
				t = math.MaxUint32 - uint32(r.Intn(100))
			case 2:
				t = 1 + uint32(r.Intn(int(a.Step)))
			case 3:
				t = uint32(model.AlignDown(now, a.Step)) + uint32(1+r.Intn(int(a.Step)))
			default:
				t = r.Uint32()
			}
			binary.BigEndian.PutUint32(img[offs[i]:], t)
		}
		how = "odd-base-timestamps"
	case 5: // counts inflated in the header, consistently (offsets recomputed), file not extended
		l2 := model.Layout{Archs: append([]model.Arch(nil), l.Archs...), Method: l.Method, Xff: l.Xff}
		k := r.Intn(len(l2.Archs))
		l2.Archs[k].Points = uint32(extremes[r.Intn(len(extremes))])
		copy(img, model.EncodeHeader(l2))
		how = "inflated-points"
	case 6: // archive count extreme
		binary.BigEndian.PutUint32(img[12:], uint32(extremes[r.Intn(len(extremes))]))
		how = "extreme-archive-count"
	case 9:
		if r.Intn(2) == 0 {
			// aggregation methods that exist in the enum but are not storable (mix, percentile) and other small values
			binary.BigEndian.PutUint32(img[0:], uint32([]int{0, 7, 8, 9, 255}[r.Intn(5)]))
			how = "unstorable-method"
			break
		}
		img, how = mutate(r, img)
		how = "file-" + how
	case 7: // tiny files
		img = img[:minI(len(img), r.Intn(40))]
		how = "tiny"
	case 8: // all slot timestamps random but aligned, values garbage
		offs := l.Offsets()
		for i, a := range l.Archs {
			for s := 0; s < int(a.Points); s++ {
				binary.BigEndian.PutUint32(img[offs[i]+12*int64(s):], uint32(model.AlignDown(int64(r.Uint32()), a.Step)))
			}
		}
		how = "random-aligned-slots"
	default:
		img, how = mutate(r, img)
		how = "file-" + how
	}
	if err := ioutil.WriteFile(path, img, 0644); err != nil {
		panic(err)
	}
	defer os.Remove(path)
	di := describeInput("file", how, img)
	fileLimit := uint64(256<<10 + 8*len(img))

	var h *wt.Whisper
	var oerr error
	oldGC := debug.SetGCPercent(-1) // a finalizer must not tidy up behind a rejected Open before the second one is tried
	gcRestored := false
	restoreGC := func() {
		if !gcRestored {
			debug.SetGCPercent(oldGC)
			gcRestored = true
		}
	}
	defer restoreGC()
	pan, stack, alloc, hung := guardedAlloc(fileLimit, func() {
		if h != nil {
			h.Close()
		}
		h, oerr = wt.Open(path)
	})
	c.Count("open_calls", 1)
	if hung {
		c.Violationf("hang:open", di, "Open did not return within 30 s")
		return
	}
	if pan != nil {
		c.Violationf("panic:open:"+fw.PanicSite(stack), fw.J{"input": di, "panic": fmt.Sprint(pan), "stack": truncStr(stack, 3000)}, "Open panicked on a damaged file (%s): %v", how, pan)
		return
	}
	c.Count("alloc_checked", 1)
	if alloc > fileLimit {
		c.Violationf("alloc:open", fw.J{"input": di, "alloc": alloc, "limit": fileLimit}, "Open allocated %d bytes for a %d-byte file (%s)", alloc, len(img), how)
		return
	}
	if oerr != nil {
		c.Count("open_rejected", 1)
		// rejecting a file must not leave anything behind that makes the next Open of it wait
		if c.Env.State["c15_second_open_hung"] != nil {
			return // already convicted in this worker: do not wait another 30 s per file
		}
		done := make(chan struct{})
		go func() {
			if h2, err := wt.Open(path); err == nil {
				h2.Close()
			}
			close(done)
		}()
		select {
		case <-done:
			c.Count("second_open_after_rejection", 1)
		case <-time.After(30 * time.Second):
			c.Env.State["c15_second_open_hung"] = true
			c.Violationf("hang:open-after-rejected-open", di, "Open rejected the file (%s: %v); a second Open of the same file did not return within 30 s", how, oerr)
			return
		}
		c.Nontrivial("file", how, di.Hex, len(img))
		return
	}
	restoreGC()
	defer h.Close()
	c.Count("open_accepted_damaged", 1)
	c.Nontrivial("file-open", how, di.Hex, len(img))
	// the header the handle believes in
	k := len(h.ArchiveInfoList())
	// the clock of the operations stays inside the clock domain OF THE HEADER AS OPENED (a flipped bit may have made a
	// step or retention far larger than the generated layout's): maxRetention + 2*maxStep <= now, now + 2*maxStep < 2^32
	{
		var ms, mr int64
		for _, a := range h.ArchiveInfoList() {
			if s := int64(a.SecondsPerPoint()); s > ms {
				ms = s
			}
			if rr := int64(a.MaxRetention()); rr > mr {
				mr = rr
			}
		}
		if now+2*ms >= 1<<32 {
			now = int64(1)<<32 - 1 - 2*ms - int64(r.Intn(1000))
		}
		if now < mr+2*ms || now < 1 {
			c.Count("damaged_headers_without_a_clock_in_domain", 1)
			return
		}
	}
	type opf struct {
		name string
		f    func() error
	}
	var opsList []opf
	for ai := 0; ai < k; ai++ {
		ai := ai
		a := h.ArchiveInfoList()[ai]
		ret := int64(a.MaxRetention())
		S := int64(a.SecondsPerPoint())
		wins := [][2]int64{{now - ret, now}, {now - 1, now}, {now, now}, {0, now}, {now - ret/2, now - ret/2 + S}, {now - r.Int63n(maxI64(ret, 0)+1), now}}
		for _, w := range wins {
			w := w
			w[0], w[1] = clampTS(w[0]), clampTS(w[1])
			if w[0] > w[1] {
				w[0] = w[1]
			}
			opsList = append(opsList, opf{fmt.Sprintf("FetchFromArchive(%d,%d,%d)", ai, w[0], w[1]), func() error {
				_, err := h.FetchFromArchive(ai, u32(w[0]), u32(w[1]), u32(now))
				return err
			}})
		}
		opsList = append(opsList, opf{fmt.Sprintf("GetAllRawUnsortedPoints(%d)", ai), func() error { _, err := h.GetAllRawUnsortedPoints(ai); return err }})
		opsList = append(opsList, opf{fmt.Sprintf("UpdatePointForArchive(%d)", ai), func() error {
			return h.UpdatePointForArchive(ai, u32(clampTS(now-r.Int63n(maxI64(ret, 1)))), 1.5, u32(now))
		}})
		opsList = append(opsList, opf{fmt.Sprintf("UpdatePointsForArchive(%d)", ai), func() error {
			return h.UpdatePointsForArchive([]wt.Point{{Time: u32(clampTS(now - ret + 1)), Value: 1}, {Time: u32(now), Value: 2}, {Time: u32(clampTS(now - r.Int63n(maxI64(ret, 1)))), Value: 3}}, ai, u32(now))
		}})
	}
	// a dense batch filling one whole coarser interval: propagation then has enough known values to aggregate
	if k >= 2 {
		a0, a1 := h.ArchiveInfoList()[0], h.ArchiveInfoList()[1]
		s0, s1 := int64(a0.SecondsPerPoint()), int64(a1.SecondsPerPoint())
		if s0 > 0 && s1 > 0 && s1/s0 <= 400 {
			base := clampTS(now - now%s1 - s1)
			var pts []wt.Point
			for t := base; t < base+s1 && t <= now; t += s0 {
				pts = append(pts, wt.Point{Time: u32(clampTS(t)), Value: wt.Value(float64(t % 17))})
			}
			opsList = append(opsList, opf{"UpdatePointsForArchive(0, dense coarser interval)", func() error {
				return h.UpdatePointsForArchive(pts, 0, u32(now))
			}})
			opsList = append(opsList, opf{"UpdateMany(dense coarser interval)", func() error {
				return h.UpdatePointsForArchive(append([]wt.Point(nil), pts...), wt.ArchiveIDBest, u32(now))
			}})
		}
	}
	opsList = append(opsList, opf{"Fetch(best)", func() error {
		_, err := h.FetchFromArchive(wt.ArchiveIDBest, u32(maxI64(0, minI64(now, now-int64(h.MaxRetention())))), u32(now), u32(now))
		return err
	}})
	opsList = append(opsList, opf{"UpdateMany(best)", func() error {
		return h.UpdatePointsForArchive([]wt.Point{{Time: u32(now - 1), Value: 1}, {Time: u32(now), Value: 2}}, wt.ArchiveIDBest, u32(now))
	}})
	for _, o := range opsList {
		var err error
		pan, stack, alloc, hung := guardedAlloc(fileLimit, func() { err = o.f() })
		c.Count("handle_ops_on_damaged", 1)
		if hung {
			c.Violationf("hang:handle-op", fw.J{"input": di, "op": o.name}, "%s did not return within 30 s on a damaged file", o.name)
			return
		}
		if pan != nil {
			c.Violationf("panic:handle-op:"+fw.PanicSite(stack), fw.J{"input": di, "op": o.name, "now": now, "layout": l, "panic": fmt.Sprint(pan), "stack": truncStr(stack, 3000)}, "%s panicked on a damaged file (%s): %v", o.name, how, pan)
			return
		}
		c.Count("alloc_checked", 1)
		if alloc > fileLimit {
			c.Violationf("alloc:handle-op", fw.J{"input": di, "op": o.name, "alloc": alloc, "limit": fileLimit}, "%s allocated %d bytes on a %d-byte file (%s)", o.name, alloc, len(img), how)
			return
		}
		if err != nil {
			c.Count("handle_op_errors", 1)
		}
	}
}

func clampTS(t int64) int64 {
	if t < 0 {
		return 0
	}
	if t > math.MaxUint32 {
		return math.MaxUint32
	}
	return t
}

func c15LyingPeer(c *fw.Ctx) {
	r := c.Rng
	ln, err := net.Listen("tcp", "127.0.0.1:0")
	if err != nil {
		return
	}
	defer ln.Close()
	var mu sync.Mutex
	announce := "1073741824"
	go func() {
		for {
			conn, err := ln.Accept()
			if err != nil {
				return
			}
			go func(conn net.Conn) {
				defer conn.Close()
				buf := make([]byte, 4096)
				n := 0
				for n < len(buf) {
					k, err := conn.Read(buf[n:])
					n += k
					if err != nil || bytes.Contains(buf[:n], []byte("\r\n\r\n")) {
						break
					}
				}
				mu.Lock()
				a := announce
				mu.Unlock()
				fmt.Fprintf(conn, "HTTP/1.1 200 OK\r\nContent-Type: application/octet-stream\r\nContent-Length: %s\r\n\r\n", a)
				conn.Write(bytes.Repeat([]byte{0, 0, 0, 1}, 4))
			}(conn)
		}
	}()
	u := "http://" + ln.Addr().String()
	for _, a := range []string{"1073741824", "4611686018427387904", "9223372036854775807", "4294967296"} {
		mu.Lock()
		announce = a
		mu.Unlock()
		for k := 0; k < 5 && !c.Violated(); k++ {
			name := []string{"client:view", "client:view-raw", "client:sum", "client:files", "client:items"}[k]
			var err error
			pan, stack, alloc, hung := guardedAlloc(4<<20, func() {
				switch k {
				case 0:
					_, _, err = wcmd.VerifReadWhisperFile(u, "a.wsp", -1, 0, 1700000000, 1700000000)
				case 1:
					_, _, err = wcmd.VerifReadWhisperFileRaw(u, "a.wsp", -1)
				case 2:
					_, _, err = wcmd.VerifSumWhisperFile(u, "item", "*.wsp", -1, 0, 1700000000, 1700000000)
				case 3:
					_, err = wcmd.VerifGlobFiles(u, "x/*.wsp")
				default:
					_, err = wcmd.VerifGlobItems(u, "x*")
				}
			})
			c.Count("calls_to_a_peer_announcing_a_huge_body", 1)
			det := fw.J{"client": name, "announced_content_length": a, "bytes_sent": 16}
			if hung {
				c.Violationf("hang:"+name, det, "%s did not return within 30 s from a peer that announced %s bytes, sent 16 and closed", name, a)
				return
			}
			if pan != nil {
				det["panic"], det["stack"] = fmt.Sprint(pan), truncStr(stack, 2500)
				c.Violationf("panic:"+name+":"+fw.PanicSite(stack), det, "%s panicked on a peer that announced %s bytes and sent 16: %v", name, a, pan)
				return
			}
			if alloc > 4<<20 {
				det["alloc"] = alloc
				c.Violationf("alloc:"+name, det, "%s allocated %d bytes for a 16-byte body (announced: %s)", name, alloc, a)
				return
			}
			_ = err
		}
	}
	_ = r
}

func c15CorruptItem(c *fw.Ctx) {
	r := c.Rng
	base := filepath.Join(c.TmpDir(), "corrupt-item")
	l := genLayout(r, layoutOpts{maxPoints0: 100})
	good := model.EncodeFile(l, nil)
	n := 18 + r.Intn(30)
	for i := 0; i < n; i++ {
		p := filepath.Join(base, "it", fmt.Sprintf("f%03d.wsp", i))
		mustMkdir(filepath.Dir(p))
		img := good
		if i < n-2 || r.Intn(2) == 0 {
			switch r.Intn(3) {
			case 0:
				img = make([]byte, 50+r.Intn(200))
				r.Read(img)
			case 1:
				img = good[:len(good)/2]
			default:
				img = append([]byte(nil), good...)
				img[3] = 99
			}
		}
		ioutil.WriteFile(p, img, 0644)
	}
	var err error
	pan, stack, _, hung := guardedAlloc(64<<20, func() {
		_, _, err = wcmd.VerifSumWhisperFile(base, "it", "*.wsp", -1, 0, 1700000000, 1700000000)
	})
	c.Count("sums_over_mostly_corrupt_items", 1)
	det := fw.J{"files": n, "layout": l.String()}
	if hung {
		c.Violationf("hang:sum-over-corrupt-files", det, "sum over an item of %d files, nearly all corrupt, did not return within 30 s", n)
		return
	}
	if pan != nil {
		det["panic"], det["stack"] = fmt.Sprint(pan), truncStr(stack, 2500)
		c.Violationf("panic:sum-over-corrupt-files:"+fw.PanicSite(stack), det, "sum over corrupt files panicked: %v", pan)
		return
	}
	if err == nil {
		c.Violationf("corrupt-files-summed", det, "sum over an item whose files are corrupt returned no error")
	}
}

func c15ViewRawCommand(c *fw.Ctx, stubURL string, body *[]byte) {
	r := c.Rng
	now := time.Now().Unix()
	for variant := 0; variant < 2; variant++ {
		var l model.Layout
		npts := 0
		if variant == 0 {
			l = model.Layout{Archs: []model.Arch{{Step: 1, Points: uint32(2 + r.Intn(3))}}, Method: 2, Xff: 0.5}
			npts = int(l.Archs[0].Points) + 1 + r.Intn(5)
		} else {
			l = model.Layout{Archs: []model.Arch{{Step: 1, Points: uint32(5000000 + r.Intn(20000000))}}, Method: 2, Xff: 0.5}
			npts = 3
		}
		b := model.EncodeHeader(l)
		var cnt [8]byte
		binary.BigEndian.PutUint64(cnt[:], uint64(npts))
		b = append(b, cnt[:]...)
		for i := 0; i < npts; i++ {
			var rec [12]byte
			binary.BigEndian.PutUint32(rec[:4], uint32(now-int64(i)-1))
			binary.BigEndian.PutUint64(rec[4:], math.Float64bits(float64(i)+0.5))
			b = append(b, rec[:]...)
		}
		*body = b
		args := []string{"view-raw", "-src-base", stubURL, "-src", "a.wsp", "-from", tsArg(now - 100), "-until", tsArg(now)}
		ctx, cancel := context.WithTimeout(context.Background(), 60*time.Second)
		cmd := exec.CommandContext(ctx, cliBin(c), args...)
		var so, se bytes.Buffer
		cmd.Stdout, cmd.Stderr = &so, &se
		err := cmd.Run()
		timedOut := ctx.Err() == context.DeadlineExceeded
		cancel()
		c.Count("view_raw_command_on_inconsistent_responses", 1)
		out := se.String() + so.String()
		det := fw.J{"response": fmt.Sprintf("header of %s followed by a list of %d points", l.String(), npts), "stderr": truncStr(se.String(), 1500)}
		if strings.Contains(out, "panic:") || strings.Contains(out, "goroutine 1 [") || strings.Contains(out, "fatal error:") {
			c.Violationf("panic:cli:view-raw", det, "view-raw crashed on a response that decodes cleanly but does not fit its own header")
			return
		}
		if timedOut {
			c.Violationf("hang:cli:view-raw", det, "view-raw did not finish within 60 s")
			return
		}
		if ps := cmd.ProcessState; ps != nil && err == nil || ps != nil {
			if ru, ok := ps.SysUsage().(*syscall.Rusage); ok && ru.Maxrss > 200*1024 {
				det["max_rss_kb"] = ru.Maxrss
				c.Violationf("alloc:cli:view-raw", det, "view-raw used %d MiB of memory for a response of %d bytes", ru.Maxrss/1024, len(b))
				return
			}
		}
	}
}
