package props

import (
	"bufio"
	"encoding/json"
	"fmt"
	"io/ioutil"
	"math"
	"os"
	"os/exec"
	"path/filepath"
	"runtime/debug"
	"sort"
	"strconv"
	"strings"
	"sync"
	"sync/atomic"
	"syscall"
	"time"

	"github.com/anishathalye/porcupine"
	wt "github.com/hnakamur/whispertool"
	wcmd "github.com/hnakamur/whispertool/cmd"
	"golang.org/x/sys/unix"

	"verifharness/fw"
	"verifharness/model"
)

// C13 Exclusive access: sessions on one file are serialized across handles.

type c13 struct{}

func init() {
	fw.Register(c13{})
	childRoles["c13"] = c13Child
}

func (c13) Meta() fw.Meta {
	return fw.Meta{
		ID: "C13",
		Rule: "case = one trial: a 6-page single-archive file whose every slot carries a generation stamp; the file's first session is its creation (Create with default options, stamp generation 0, Sync, Close) during which the other sessions already try to open it; 2-8 writer sessions (Open, read generation from a slot in page 0 and one in the last page, sleep, rewrite ALL slots with generation+1, sleep, Sync, sleep, Close) and 2-8 reader sessions (Open, fetch first half, sleep, fetch second half, Close) " +
			"run as goroutines AND as separate processes (mix by PRNG), injected sleeps 0-5 ms between the client-boundary steps (rarely one writer holds the file for 4 s; some in-process readers close their handle twice). Events (call/acquired/observed/releasing/return) carry CLOCK_MONOTONIC time shared by all processes. " +
			"oracles: (1) no two [acquired,releasing] intervals overlap; (2) final generation == number of writers and the generations read by writers are exactly 0..W-1; (3) every session sees ONE generation in all slots; " +
			"(4) the history (inc returns old value / read returns value, Call=before Open, Return=after Close) is linearizable w.r.t. an integer register (porcupine, 60 s timeout => inconclusive); " +
			"(5) every way an Open/Create can fail after the descriptor exists (0-byte, truncated header, bad method/xff/archive list, header larger than file, body shorter than declared, Create with a read-only flag on an existing file), with GC disabled: a fresh descriptor gets flock(LOCK_EX|LOCK_NB) at once and /proc/self/fd shows no descriptor for the path; (6) closing a handle twice leaves the lock of another, still open handle (whose descriptor typically reuses the number) in place; race detector on. " +
			"non-trivial = trial in which at least one session waited while another held the file; distinct by the observed acquisition order (which session, writer/reader, goroutine/process, obtained the file in which order)." +
			" After every failed Open/Create the same path (repaired) is opened again by the same process under a 30 s watchdog." +
			" Even cases add 180 reads through the commands' read path (all archives per read) against writer sessions stamping every archive of a three-archive file; odd cases add 12 rounds of four sessions creating one new path at once (exactly one may succeed and its synced stamp must survive).",
		Assumptions: []string{
			"advisory locks bind cooperating default-option handles only (WithoutFlock handles are outside the property)",
			"recorded [acquired,releasing] intervals are subsets of the real hold intervals, so an observed overlap is a sound conviction; absence of overlap is evidence only for the schedules produced",
		},
		Obligations:      []string{"trials", "sessions", "sessions_blocked_inprocess", "sessions_blocked_crossprocess", "porcupine_ok", "failed_open_probes", "writer_generations_checked", "reader_uniformity_checked", "creator_sessions", "double_close_sessions", "long_hold_trials", "sparse_schedule_trials", "double_close_probes", "later_opens_after_failed_open", "command_style_reads_during_writer_sessions", "racing_creator_rounds"},
		Race:             true,
		HangKey:          "sessions-never-complete",
		WorkerTimeoutSec: 600,
		Workers:          8,
	}
}

func (c13) Cases(tier string) int {
	if tier == "thorough" {
		return 1500
	}
	return 48
}

func monoNow() int64 {
	var ts unix.Timespec
	unix.ClockGettime(unix.CLOCK_MONOTONIC, &ts)
	return ts.Sec*1e9 + ts.Nsec
}

type c13ev struct {
	ID        int     `json:"id"`
	Kind      string  `json:"kind"` // writer | reader
	Proc      string  `json:"proc"` // goroutine | process
	Call      int64   `json:"call"`
	Acquired  int64   `json:"acquired"`
	Releasing int64   `json:"releasing"`
	Return    int64   `json:"return"`
	Gens      []int64 `json:"gens"` // distinct generations observed (must be exactly one)
	ReadGen   int64   `json:"read_gen"`
	Err       string  `json:"err,omitempty"`
}

const c13N = 2000
const c13Now = 1700000000

func c13Layout() model.Layout {
	return model.Layout{Archs: []model.Arch{{Step: 1, Points: c13N}}, Method: 2, Xff: 0}
}

func c13Stamp(db *wt.Whisper, gen int64) error {
	pts := make([]wt.Point, c13N)
	for i := range pts {
		pts[i] = wt.Point{Time: wt.Timestamp(c13Now - c13N + 1 + i), Value: wt.Value(gen)}
	}
	return db.UpdatePointsForArchive(pts, 0, c13Now)
}

func gensOf(ts *wt.TimeSeries) map[int64]bool {
	g := map[int64]bool{}
	for _, v := range ts.Values() {
		if math.IsNaN(float64(v)) {
			g[-1] = true
		} else {
			g[int64(v)] = true
		}
	}
	return g
}

// c13Session runs one session and returns its event record.
func c13Session(path string, id int, kind, proc string, d [3]time.Duration) c13ev {
	ev := c13ev{ID: id, Kind: kind, Proc: proc}
	ev.Call = monoNow()
	db, err := wt.Open(path)
	ev.Acquired = monoNow()
	if err != nil {
		ev.Err = "open: " + err.Error()
		ev.Releasing, ev.Return = ev.Acquired, ev.Acquired
		return ev
	}
	seen := map[int64]bool{}
	mid := int64(c13Now - c13N/2)
	fetch := func(from, until int64) {
		ts, err := db.FetchFromArchive(0, u32(from), u32(until), c13Now)
		if err != nil || ts == nil {
			ev.Err = fmt.Sprintf("fetch: %v", err)
			return
		}
		for g := range gensOf(ts) {
			seen[g] = true
		}
	}
	if kind == "writer" {
		// read the generation from a slot in page 0 and one in the last page
		fetch(c13Now-c13N, c13Now-c13N+3)
		fetch(c13Now-3, c13Now)
		time.Sleep(d[0])
		gen := int64(-2)
		for g := range seen {
			gen = g
		}
		ev.ReadGen = gen
		if err := c13Stamp(db, gen+1); err != nil {
			ev.Err = "stamp: " + err.Error()
		}
		time.Sleep(d[1])
		if err := db.Sync(); err != nil {
			ev.Err = "sync: " + err.Error()
		}
		time.Sleep(d[2])
	} else {
		fetch(c13Now-c13N, mid)
		time.Sleep(d[0])
		fetch(mid, c13Now)
		ev.ReadGen = -2
		for g := range seen {
			ev.ReadGen = g
		}
		time.Sleep(d[1])
	}
	for g := range seen {
		ev.Gens = append(ev.Gens, g)
	}
	sort.Slice(ev.Gens, func(i, j int) bool { return ev.Gens[i] < ev.Gens[j] })
	ev.Releasing = monoNow()
	db.Close()
	ev.Return = monoNow()
	if d[2] == c13DoubleClose {
		// a deferred Close after an explicit one is common practice: closing a handle twice must not affect
		// any OTHER handle (whose descriptor may have reused the number)
		time.Sleep(time.Duration(300+ev.ID*1371%6000) * time.Microsecond)
		db.Close()
	}
	return ev
}

// c13DoubleClose is a marker value in a reader session's third (unused) delay slot: close the handle twice.
const c13DoubleClose = 7 * time.Nanosecond

func c13Child(args []string) int {
	// args: path id kind d0 d1 d2 logfile
	if len(args) < 7 {
		return 2
	}
	id, _ := strconv.Atoi(args[1])
	var d [3]time.Duration
	for i := 0; i < 3; i++ {
		us, _ := strconv.Atoi(args[3+i])
		d[i] = time.Duration(us) * time.Microsecond
	}
	ev := c13Session(args[0], id, args[2], "process", d)
	b, _ := json.Marshal(ev)
	f, err := os.OpenFile(args[6], os.O_WRONLY|os.O_APPEND|os.O_CREATE, 0644)
	if err != nil {
		return 3
	}
	f.Write(append(b, '\n'))
	f.Close()
	return 0
}

type regIn struct {
	Inc bool
}

// c13DoubleCloseProbe: closing a handle a second time (a deferred Close after an explicit one) must not
// affect ANOTHER handle - in particular not one whose descriptor reuses the number of the closed one.
func c13DoubleCloseProbe(c *fw.Ctx) {
	dir := c.TmpDir()
	l := model.Layout{Archs: []model.Arch{{Step: 1, Points: 50}}, Method: 2, Xff: 0}
	p1, p2 := filepath.Join(dir, "dc-one.wsp"), filepath.Join(dir, "dc-two.wsp")
	for _, p := range []string{p1, p2} {
		db, err := createFile(p, l)
		if err != nil {
			panic(err)
		}
		db.Sync()
		db.Close()
	}
	for round := 0; round < 4; round++ {
		a, err := wt.Open(p1)
		if err != nil {
			panic(err)
		}
		a.Close()
		b, err := wt.Open(p2) // typically receives the descriptor number a just gave back
		if err != nil {
			panic(err)
		}
		a.Close() // second Close of a
		fd, err := syscall.Open(p2, syscall.O_RDWR, 0)
		if err == nil {
			ferr := syscall.Flock(fd, syscall.LOCK_EX|syscall.LOCK_NB)
			if ferr == nil {
				syscall.Flock(fd, syscall.LOCK_UN)
				syscall.Close(fd)
				b.Close()
				c.Violationf("second-close-released-another-handles-lock", fw.J{"round": round},
					"after closing handle A a second time, the file held by the still-open handle B is no longer locked: a later Open would not wait")
				return
			}
			syscall.Close(fd)
		}
		b.Close()
		c.Count("double_close_probes", 1)
	}
}

func (c13) Run(c *fw.Ctx) {
	r := c.Rng
	c13FailedOpen(c)
	if c.Violated() {
		return
	}
	c13DoubleCloseProbe(c)
	if c.Violated() {
		return
	}
	if c.Index%2 == 0 {
		c13CommandReaders(c)
		if c.Violated() {
			return
		}
	} else {
		c13RacingCreators(c)
		if c.Violated() {
			return
		}
	}
	dir := c.TmpDir()
	path := filepath.Join(dir, "c13.wsp")
	// the file's first session is its creation: Create (default options) must hold the file like any handle,
	// so every other session waits until the creator has stamped generation 0, synced and closed
	var creator c13ev
	creatorDelays := [2]time.Duration{time.Duration(r.Intn(4)) * time.Millisecond, time.Duration(r.Intn(3)) * time.Millisecond}
	created := make(chan struct{})
	creatorDone := make(chan struct{})
	go func() {
		defer close(creatorDone)
		creator = c13ev{ID: -1, Kind: "creator", Proc: "goroutine", ReadGen: -1}
		creator.Call = monoNow()
		db, err := createFile(path, c13Layout())
		creator.Acquired = monoNow()
		close(created)
		if err != nil {
			creator.Err = "create: " + err.Error()
			return
		}
		time.Sleep(creatorDelays[0])
		if err := c13Stamp(db, 0); err != nil {
			creator.Err = "stamp: " + err.Error()
		}
		if err := db.Sync(); err != nil {
			creator.Err = "sync: " + err.Error()
		}
		time.Sleep(creatorDelays[1])
		creator.Releasing = monoNow()
		db.Close()
		creator.Return = monoNow()
	}()
	<-created

	W := 2 + r.Intn(7)
	R := 2 + r.Intn(7)
	type plan struct {
		id   int
		kind string
		proc string
		d    [3]time.Duration
		wait time.Duration
	}
	delays := []time.Duration{0, 50 * time.Microsecond, 200 * time.Microsecond, time.Millisecond, 2 * time.Millisecond, 5 * time.Millisecond}
	var plans []plan
	doubleCloses := 0
	// rarely one writer holds the file for several seconds: the waiting sessions must keep waiting (not give up)
	longHold := (c.Tier == "thorough" && c.Index%24 == 7) || (c.Tier != "thorough" && c.Index == 7)
	for i := 0; i < W+R; i++ {
		p := plan{id: i, kind: "writer", proc: "goroutine"}
		if i >= W {
			p.kind = "reader"
		}
		switch c.Index % 3 {
		case 0:
			p.proc = "goroutine"
		case 1:
			p.proc = "process"
		default:
			if r.Intn(2) == 0 {
				p.proc = "process"
			}
		}
		for j := range p.d {
			p.d[j] = delays[r.Intn(len(delays))]
		}
		p.wait = time.Duration(r.Intn(3000)) * time.Microsecond
		if p.kind == "reader" && p.proc == "goroutine" && r.Intn(2) == 0 {
			p.d[2] = c13DoubleClose
			doubleCloses++
		}
		plans = append(plans, p)
	}
	r.Shuffle(len(plans), func(i, j int) { plans[i], plans[j] = plans[j], plans[i] })
	if c.Index%4 == 3 && !longHold {
		// sparse schedule: sessions start one after the other with little contention, so a session often opens
		// (and obtains a fresh descriptor number) right after another one closed
		for i := range plans {
			plans[i].wait = time.Duration(i)*time.Duration(1500+r.Intn(2500))*time.Microsecond + time.Duration(r.Intn(500))*time.Microsecond
			for j := 0; j < 2; j++ {
				plans[i].d[j] = []time.Duration{0, 50 * time.Microsecond, 200 * time.Microsecond, time.Millisecond}[r.Intn(4)]
			}
			if plans[i].d[2] != c13DoubleClose {
				plans[i].d[2] = 0
			}
		}
		c.Count("sparse_schedule_trials", 1)
	}
	if longHold {
		plans[0].d[1] = 4200 * time.Millisecond // writer 0 sleeps 4.2 s between stamping and Sync
		plans[0].wait = 0
		c.Count("long_hold_trials", 1)
	}
	c.Count("double_close_sessions", int64(doubleCloses))
	logFile := filepath.Join(dir, "events.jsonl")
	exe, _ := os.Executable()
	var mu sync.Mutex
	var evs []c13ev
	var wg sync.WaitGroup
	var cmu sync.Mutex
	var children []*exec.Cmd
	for _, p := range plans {
		p := p
		wg.Add(1)
		go func() {
			defer wg.Done()
			time.Sleep(p.wait)
			if p.proc == "goroutine" {
				ev := c13Session(path, p.id, p.kind, "goroutine", p.d)
				mu.Lock()
				evs = append(evs, ev)
				mu.Unlock()
				return
			}
			cmd := exec.Command(exe, "child", "c13", path, strconv.Itoa(p.id), p.kind,
				strconv.Itoa(int(p.d[0]/time.Microsecond)), strconv.Itoa(int(p.d[1]/time.Microsecond)), strconv.Itoa(int(p.d[2]/time.Microsecond)), logFile)
			cmd.Env = append(os.Environ(), "GORACE=halt_on_error=0 log_path="+filepath.Join(c.Env.Tmp, "..", "race"))
			cmu.Lock()
			children = append(children, cmd)
			cmu.Unlock()
			out, err := cmd.CombinedOutput()
			if err != nil {
				mu.Lock()
				evs = append(evs, c13ev{ID: p.id, Kind: p.kind, Proc: "process", Err: fmt.Sprintf("child failed: %v %s", err, truncStr(string(out), 300))})
				mu.Unlock()
			}
		}()
	}
	// generous watchdog: sessions take milliseconds; if some are still blocked after two minutes although every
	// session that obtained the file has closed its handle, the lock has outlived its handle
	waited := make(chan struct{})
	go func() { wg.Wait(); <-creatorDone; close(waited) }()
	select {
	case <-waited:
	case <-time.After(120 * time.Second):
		cmu.Lock()
		for _, cm := range children {
			if cm.Process != nil {
				cm.Process.Kill()
			}
		}
		cmu.Unlock()
		mu.Lock()
		done := len(evs)
		mu.Unlock()
		c.Violationf("lock-outlives-handle", fw.J{"plan": fmt.Sprintf("W=%d R=%d", W, R), "sessions_finished": done, "sessions_planned": W + R},
			"after 120 s %d of %d sessions are still blocked in Open although every session that obtained the file closed its handle long ago: the lock outlived a handle (e.g. a descriptor inherited by a child process)", W+R-done, W+R)
		return
	}
	if creator.Err != "" {
		c.Violationf("creator-session-error", fw.J{"err": creator.Err}, "the creating session failed: %s", creator.Err)
		return
	}
	if f, err := os.Open(logFile); err == nil {
		sc := bufio.NewScanner(f)
		for sc.Scan() {
			var ev c13ev
			if json.Unmarshal(sc.Bytes(), &ev) == nil {
				evs = append(evs, ev)
			}
		}
		f.Close()
	}
	c.Count("trials", 1)
	c.Count("sessions", int64(len(evs)))
	nSessions := len(evs)
	planDesc := fmt.Sprintf("W=%d R=%d", W, R)
	if nSessions != W+R {
		c.Inconclusive(fmt.Sprintf("%d of %d sessions reported", nSessions, W+R))
		return
	}
	creator.Gens = []int64{0}
	evs = append(evs, creator)
	sort.Slice(evs, func(i, j int) bool { return evs[i].Acquired < evs[j].Acquired })
	if evs[0].Kind != "creator" {
		c.Violationf("session-before-creator-closed", fw.J{"events": evs}, "session %d (%s/%s) obtained the file before the creating handle had it", evs[0].ID, evs[0].Kind, evs[0].Proc)
	}
	c.Count("creator_sessions", 1)
	detail := func() fw.J { return fw.J{"plan": planDesc, "events": evs} }
	for _, e := range evs {
		if e.Err != "" {
			c.Violationf("session-error", detail(), "session %d (%s/%s) failed: %s", e.ID, e.Kind, e.Proc, e.Err)
			return
		}
	}
	// (1) mutual exclusion
	for i := 0; i+1 < len(evs); i++ {
		if evs[i+1].Acquired < evs[i].Releasing {
			c.Violationf("hold-intervals-overlap", detail(), "session %d (%s/%s) acquired the file at %d while session %d (%s/%s) held it until %d",
				evs[i+1].ID, evs[i+1].Kind, evs[i+1].Proc, evs[i+1].Acquired, evs[i].ID, evs[i].Kind, evs[i].Proc, evs[i].Releasing)
			break
		}
	}
	// contention actually observed
	blocked := false
	for _, a := range evs {
		for _, b := range evs {
			if a.ID != b.ID && a.Call > b.Acquired && a.Call < b.Releasing {
				// a was calling Open while b held the file
				if a.Proc == "process" || b.Proc == "process" {
					c.Count("sessions_blocked_crossprocess", 1)
				} else {
					c.Count("sessions_blocked_inprocess", 1)
				}
				blocked = true
				break
			}
		}
	}
	// (3) uniform generation per session
	for _, e := range evs {
		c.Count("reader_uniformity_checked", 1)
		if len(e.Gens) != 1 {
			c.Violationf("torn-read", detail(), "session %d (%s/%s) saw generations %v in one session: a mixture of pages from before and after a Sync", e.ID, e.Kind, e.Proc, e.Gens)
			break
		}
	}
	// (2) no lost update
	var readGens []int64
	for _, e := range evs {
		if e.Kind == "writer" {
			readGens = append(readGens, e.ReadGen)
		}
	}
	sort.Slice(readGens, func(i, j int) bool { return readGens[i] < readGens[j] })
	c.Count("writer_generations_checked", int64(len(readGens)))
	for i, g := range readGens {
		if g != int64(i) {
			c.Violationf("lost-update", detail(), "the %d writers read generations %v: must be exactly 0..%d each once (an update was lost or read stale)", W, readGens, W-1)
			break
		}
	}
	fin, err := wt.Open(path)
	if err != nil {
		c.Violationf("final-open-failed", detail(), "final Open failed: %v", err)
		return
	}
	ts, _ := fin.FetchFromArchive(0, c13Now-c13N, c13Now, c13Now)
	fin.Close()
	fg := gensOf(ts)
	if len(fg) != 1 || !fg[int64(W)] {
		c.Violationf("final-generation-wrong", detail(), "after %d writer sessions the file holds generations %v, want exactly {%d}", W, fg, W)
	}
	// (4) linearizability
	regModel := porcupine.Model{
		Init: func() interface{} { return int64(0) },
		Step: func(state, input, output interface{}) (bool, interface{}) {
			st := state.(int64)
			if input.(regIn).Inc {
				return output.(int64) == st, st + 1
			}
			return output.(int64) == st, st
		},
		Equal: func(a, b interface{}) bool { return a.(int64) == b.(int64) },
	}
	var opsP []porcupine.Operation
	for _, e := range evs {
		if e.Kind == "creator" {
			continue
		}
		opsP = append(opsP, porcupine.Operation{ClientId: e.ID, Input: regIn{Inc: e.Kind == "writer"}, Call: e.Call, Output: e.ReadGen, Return: e.Return})
	}
	res := porcupine.CheckOperationsTimeout(regModel, opsP, 60*time.Second)
	switch res {
	case porcupine.Ok:
		c.Count("porcupine_ok", 1)
	case porcupine.Illegal:
		c.Violationf("not-linearizable", detail(), "the session history is not linearizable w.r.t. an integer register (inc returns old value, read returns value)")
	default:
		c.Inconclusive("porcupine timed out")
	}
	if blocked {
		// distinct = distinct observed acquisition orders (who got the file in which order, by kind and process type)
		order := ""
		for _, e := range evs {
			order += fmt.Sprintf("%s/%s/%d>", e.Kind[:1], e.Proc[:1], e.ID)
		}
		c.Nontrivial(planDesc, order)
	}
	if c.Index < 16 {
		var s []string
		for _, e := range evs[:minI(len(evs), 6)] {
			s = append(s, fmt.Sprintf("%s/%s id=%d waited=%dus held=%dus gen=%d", e.Kind, e.Proc, e.ID, (e.Acquired-e.Call)/1000, (e.Releasing-e.Acquired)/1000, e.ReadGen))
		}
		c.Sample(fw.J{"plan": planDesc, "sessions": s})
	}
}

// c13FailedOpen: an Open or Create that fails keeps the file neither open nor locked.
func c13FailedOpen(c *fw.Ctx) {
	r := c.Rng
	dir := c.TmpDir()
	old := debug.SetGCPercent(-1) // a finalizer must not hide a leaked descriptor
	defer debug.SetGCPercent(old)
	l := model.Layout{Archs: []model.Arch{{Step: 10, Points: 100}, {Step: 60, Points: 200}}, Method: 1, Xff: 0.5}
	good := model.EncodeFile(l, nil)
	type mode struct {
		name string
		img  []byte
	}
	mut := func(f func(b []byte) []byte) []byte { return f(append([]byte(nil), good...)) }
	modes := []mode{
		{"zero-byte", []byte{}},
		{"4-byte", good[:4]},
		{"truncated-header-20", good[:20]},
		{"header-only", good[:l.HeaderSize()]},
		{"bad-method", mut(func(b []byte) []byte { b[3] = 9; return b })},
		{"bad-xff", mut(func(b []byte) []byte { b[8], b[9] = 0x7f, 0xc0; return b })},
		{"bad-archive-list", mut(func(b []byte) []byte { b[16+12+7] = 10; return b })}, // second step == first step
		{"zero-archives", mut(func(b []byte) []byte { b[15] = 0; return b })},
		{"header-larger-than-file", mut(func(b []byte) []byte { b[13] = 1; return b[:40] })},
		{"body-shorter-than-declared", good[:len(good)-1-r.Intn(len(good)-int(l.HeaderSize())-1)]},
		{"count-huge", mut(func(b []byte) []byte { b[12], b[13], b[14], b[15] = 0x15, 0x55, 0x55, 0x56; return b })},
	}
	probe := func(path, what string) {
		fd, err := syscall.Open(path, syscall.O_RDWR, 0)
		if err != nil {
			c.Violationf("probe-open-failed", fw.J{"mode": what, "err": err.Error()}, "probe open failed: %v", err)
			return
		}
		defer syscall.Close(fd)
		if err := syscall.Flock(fd, syscall.LOCK_EX|syscall.LOCK_NB); err != nil {
			c.Violationf("failed-open-keeps-lock", fw.J{"mode": what, "err": err.Error()}, "after a failed %s the file is still locked (flock LOCK_NB: %v): a later Open would block", what, err)
			return
		}
		syscall.Flock(fd, syscall.LOCK_UN)
		// no descriptor of this process may still refer to the path (besides the probe)
		ents, _ := ioutil.ReadDir("/proc/self/fd")
		n := 0
		for _, e := range ents {
			if t, err := os.Readlink(filepath.Join("/proc/self/fd", e.Name())); err == nil && t == path {
				n++
			}
		}
		if n > 1 {
			c.Violationf("failed-open-keeps-descriptor", fw.J{"mode": what, "descriptors": n - 1}, "after a failed %s %d descriptor(s) of the file are still open", what, n-1)
		}
	}
	// a later Open of the same path by the same process (the file repaired meanwhile) is not blocked by the failed one
	laterOpen := func(path, what string) bool {
		ioutil.WriteFile(path, good, 0644)
		done := make(chan error, 1)
		go func() {
			db, err := wt.Open(path)
			if err == nil {
				err = db.Close()
			}
			done <- err
		}()
		select {
		case err := <-done:
			c.Count("later_opens_after_failed_open", 1)
			if err != nil {
				c.Violationf("later-open-fails-after-failed-open", fw.J{"mode": what, "err": err.Error()}, "after a failed %s, Open of the same path (now holding a valid file) failed: %v", what, err)
				return false
			}
			return true
		case <-time.After(30 * time.Second):
			c.Violationf("failed-open-blocks-later-open", fw.J{"mode": what}, "after a failed %s, a later Open of the same path by the same process did not return within 30 s", what)
			return false
		}
	}
	for _, m := range modes {
		p := filepath.Join(dir, "fo-"+m.name+".wsp")
		ioutil.WriteFile(p, m.img, 0644)
		db, err := wt.Open(p)
		if err == nil {
			db.Close()
			c.Count("failed_open_mode_accepted_"+strings.ReplaceAll(m.name, "-", "_"), 1)
			continue
		}
		c.Count("failed_open_probes", 1)
		probe(p, "Open("+m.name+")")
		if !laterOpen(p, "Open("+m.name+")") {
			return
		}
		os.Remove(p)
	}
	// Create failing after the descriptor exists: existing file opened read-only => Truncate fails
	p := filepath.Join(dir, "fc.wsp")
	ioutil.WriteFile(p, good, 0644)
	db, err := wt.Create(p, archiveInfoList(l), wt.AggregationMethod(l.Method), l.Xff, wt.WithOpenFileFlag(os.O_RDONLY))
	if err == nil {
		db.Close()
		c.Count("create_failure_mode_not_producible", 1) // this failure mode needs Create to truncate through a read-only descriptor
	} else {
		c.Count("failed_create_probes", 1)
		probe(p, "Create(read-only flag)")
		laterOpen(p, "Create(read-only flag)")
	}
	os.Remove(p)
}

// c13CommandReaders: the read path the commands and the server use (all archives of a file in one request) against
// writer sessions that stamp EVERY archive with their generation: one read is one session - it never sees archives of
// different generations.
func c13CommandReaders(c *fw.Ctx) {
	l := model.Layout{Archs: []model.Arch{{Step: 1, Points: 600}, {Step: 60, Points: 100}, {Step: 600, Points: 40}}, Method: 3, Xff: 0}
	dir := c.TmpDir()
	path := filepath.Join(dir, "cmdread.wsp")
	stamp := func(db *wt.Whisper, gen int64) error {
		for ai := len(l.Archs) - 1; ai >= 0; ai-- {
			a := l.Archs[ai]
			pts := make([]wt.Point, 0, a.Points)
			for t := model.AlignNext(c13Now-a.Ret(), a.Step); t <= c13Now; t += int64(a.Step) {
				pts = append(pts, wt.Point{Time: u32(t), Value: wt.Value(gen)})
			}
			if err := db.UpdatePointsForArchive(pts, ai, c13Now); err != nil {
				return err
			}
		}
		return nil
	}
	db, err := createFile(path, l)
	if err != nil {
		panic(err)
	}
	stamp(db, 0)
	db.Sync()
	db.Close()
	var wg sync.WaitGroup
	var mu sync.Mutex
	var bad string
	stop := make(chan struct{})
	for w := 0; w < 2; w++ {
		wg.Add(1)
		go func() {
			defer wg.Done()
			for k := 0; k < 40; k++ {
				select {
				case <-stop:
					return
				default:
				}
				db, err := wt.Open(path)
				if err != nil {
					return
				}
				ts, err := db.FetchFromArchive(0, u32(c13Now-5), c13Now, c13Now)
				gen := int64(0)
				if err == nil && ts != nil && len(ts.Values()) > 0 {
					gen = int64(ts.Values()[0])
				}
				stamp(db, gen+1)
				db.Sync()
				db.Close()
			}
		}()
	}
	reads := int64(0)
	for rd := 0; rd < 3; rd++ {
		wg.Add(1)
		go func() {
			defer wg.Done()
			for k := 0; k < 60; k++ {
				_, tl, err := wcmd.VerifReadWhisperFile(dir, "cmdread.wsp", -1, 0, c13Now, c13Now)
				if err != nil {
					mu.Lock()
					bad = "read failed: " + err.Error()
					mu.Unlock()
					return
				}
				gens := map[int64]bool{}
				per := make([]int64, len(tl))
				for ai, ts := range tl {
					per[ai] = -1
					if ts == nil {
						continue
					}
					for _, v := range ts.Values() {
						if !math.IsNaN(float64(v)) {
							gens[int64(v)] = true
							per[ai] = int64(v)
						}
					}
				}
				atomic.AddInt64(&reads, 1)
				if len(gens) > 1 {
					mu.Lock()
					bad = fmt.Sprintf("one read of all archives returned generations %v (last value per archive: %v)", gens, per)
					mu.Unlock()
					return
				}
			}
		}()
	}
	done := make(chan struct{})
	go func() { wg.Wait(); close(done) }()
	select {
	case <-done:
	case <-time.After(120 * time.Second):
		close(stop)
		c.Violationf("command-reader-trial-hangs", fw.J{}, "writer sessions and command-style reads of one file did not finish within 120 s")
		return
	}
	c.Count("command_style_reads_during_writer_sessions", atomic.LoadInt64(&reads))
	if bad != "" {
		c.Violationf("torn-read", fw.J{"reader": "cmd read path (all archives in one request)", "what": bad}, "a read through the commands' read path saw a mixture of writer sessions: %s", bad)
	}
}

// c13RacingCreators: several sessions create the same, not yet existing path at the same moment (two commands that both
// found their destination missing). Exactly one Create succeeds; what that session stamps and syncs is what the file
// holds afterwards - no other "creator" ever held, or replaced, the file.
func c13RacingCreators(c *fw.Ctx) {
	l := c13Layout()
	dir := c.TmpDir()
	for round := 0; round < 12 && !c.Violated(); round++ {
		path := filepath.Join(dir, fmt.Sprintf("race-create-%d.wsp", round))
		const n = 4
		start := make(chan struct{})
		var wg sync.WaitGroup
		ok := make([]bool, n)
		for i := 0; i < n; i++ {
			wg.Add(1)
			go func(i int) {
				defer wg.Done()
				<-start
				db, err := createFile(path, l)
				if err != nil {
					return
				}
				ok[i] = true
				c13Stamp(db, int64(100+i))
				db.Sync()
				time.Sleep(time.Duration(i) * time.Millisecond)
				db.Close()
			}(i)
		}
		close(start)
		wg.Wait()
		winners := []int{}
		for i, w := range ok {
			if w {
				winners = append(winners, i)
			}
		}
		c.Count("racing_creator_rounds", 1)
		if len(winners) != 1 {
			c.Violationf("racing-creators-not-exclusive", fw.J{"creators": n, "succeeded": winners}, "%d sessions created the same new path at once and %d of them succeeded (want exactly one)", n, len(winners))
			return
		}
		db, err := wt.Open(path)
		if err != nil {
			c.Violationf("session-error", fw.J{"err": err.Error()}, "the file created by the winning session cannot be opened: %v", err)
			return
		}
		ts, err := db.FetchFromArchive(0, u32(c13Now-c13N), c13Now, c13Now)
		db.Close()
		if err != nil || ts == nil {
			c.Violationf("session-error", fw.J{"err": fmt.Sprint(err)}, "fetch from the created file failed: %v", err)
			return
		}
		g := gensOf(ts)
		if len(g) != 1 || !g[int64(100+winners[0])] {
			c.Violationf("lost-update", fw.J{"winner": winners[0], "generations_in_file": fmt.Sprint(g)}, "the winning creator stamped generation %d and synced; the file holds %v", 100+winners[0], g)
			return
		}
		os.Remove(path)
	}
}
