package props

import (
	"fmt"
	"math"
	"math/big"
	"math/rand"
	"net/http"
	"net/http/httptest"
	"net/url"
	"os"
	"path/filepath"
	"regexp"
	"strconv"
	"strings"
	"sync"
	"time"

	wt "github.com/hnakamur/whispertool"

	"verifharness/fw"
	"verifharness/model"
)

// C19 Text syntax round-trips: what is printed is what is parsed.

type c19 struct{}

func init() { fw.Register(c19{}) }

const c19QuickCases = 256
const c19ThoroughShards = 4096

func (c19) Meta() fw.Meta {
	return fw.Meta{
		ID: "C19",
		Rule: "round trips: ParseDuration(d.String())==d, ParseTimestamp(t.String())==t (and t.String() equals an independent days-from-civil rendering), ParseArchiveInfoList(l.String())==l for generated valid lists, AggregationMethodString(m.String())==m; " +
			"quick: all unit/power-of-two boundaries +-1 and 2.5M random values; thorough: ALL 2^31 non-negative durations and ALL 2^32 timestamps, sharded. " +
			"exact meaning: every string over {0-9 s m h d w y : , + - space} up to length 4 (thorough: 5) plus boundary numerals (2147483647s, 2147483648s, 35791394m, 35791395m, leading zeros, 40-digit numerals) is fed to ParseDuration/ParseArchiveInfo/ParseArchiveInfoList; " +
			"timestamps: the 20-character layout with each field at min/max/overflow, pre-1970 and post-2106 dates, lower-case z, offsets. Oracle: accepted => value equals the independently computed arithmetic meaning (big integers / days-from-civil) and fits the type; " +
			"must-reject classes (empty, no/unknown/doubled unit, sign, retention not a multiple of its step, meaning > 2^31-1, instants outside [0,2^32)) must be rejected. " +
			"non-trivial = shard containing accepted and rejected strings and at least 1000 round trips; distinct by shard." +
			" The CLI sample also runs view and sum against a recording stub server and parses from/until/now/retention back out of the request." +
			" Half of the cases run with the process-local time zone nine hours east or eight hours west of UTC; the CLI sample gives every option twice and expects the meaning of the last value.",
		Assumptions: []string{
			"strings in neither class (redundant leading zeros; fractional seconds, which the Go time parser accepts after the seconds field) are not judged for acceptance, only for the returned value when accepted",
			"CLI flag value types are unexported; they are sampled through the real binary (printed method names, retention lists and timestamps must be accepted with their meaning, malformed/out-of-range ones rejected) and exercised further by C12/C16",
		},
		Obligations: []string{"duration_roundtrips", "timestamp_roundtrips", "list_roundtrips", "method_roundtrips", "duration_strings_accepted", "duration_strings_rejected", "mustreject_checked", "overflow_numerals_rejected", "archiveinfo_strings_accepted", "archiveinfo_nonmultiple_rejected", "timestamp_strings_accepted", "timestamp_out_of_range_rejected", "timestamp_bad_field_rejected", "timestamp_render_checked", "cli_flag_checks", "forwarded_requests_checked", "cases_in_a_non_utc_zone"},
		Exhaustive:  func(tier string) bool { return tier == "thorough" },
	}
}

func (c19) Cases(tier string) int {
	if tier == "thorough" {
		return c19ThoroughShards
	}
	return c19QuickCases
}

var unitSecs = map[byte]int64{'s': 1, 'm': 60, 'h': 3600, 'd': 86400, 'w': 604800, 'y': 31536000}

var durRe = regexp.MustCompile(`^([0-9]+)([smhdwy])$`)

// durMeaning returns (matches syntax, canonical numeral, meaning).
func durMeaning(s string) (bool, bool, *big.Int) {
	m := durRe.FindStringSubmatch(s)
	if m == nil {
		return false, false, nil
	}
	n, _ := new(big.Int).SetString(m[1], 10)
	canonical := m[1] == "0" || m[1][0] != '0'
	return true, canonical, n.Mul(n, big.NewInt(unitSecs[m[2][0]]))
}

var maxI32 = big.NewInt(math.MaxInt32)

func c19CheckDurationString(c *fw.Ctx, s string) {
	d, err := wt.ParseDuration(s)
	ok, canonical, meaning := durMeaning(s)
	switch {
	case err == nil && !ok:
		c.Violationf("duration-accepts-malformed", fw.J{"input": s, "value": int64(d)}, "ParseDuration(%q) = %d, but the string is not digits+unit", s, d)
	case err == nil && ok:
		if meaning.Cmp(maxI32) > 0 || meaning.Int64() != int64(d) {
			c.Violationf("duration-wrong-meaning", fw.J{"input": s, "value": int64(d), "meaning": meaning.String()}, "ParseDuration(%q) = %d, arithmetic meaning is %s", s, d, meaning)
		}
		c.Count("duration_strings_accepted", 1)
	case err != nil:
		c.Count("duration_strings_rejected", 1)
		if !ok {
			c.Count("mustreject_checked", 1)
		}
		if ok && meaning.Cmp(maxI32) > 0 {
			c.Count("overflow_numerals_rejected", 1)
		}
		if ok && canonical && meaning.Cmp(maxI32) <= 0 {
			// a canonical in-range numeral: it is what String() prints for some duration only if the unit is the
			// largest dividing one; those are covered by the round trip. Not judged here.
			c.Count("canonical_inrange_rejected_not_judged", 1)
		}
	}
}

func c19CheckArchiveInfoString(c *fw.Ctx, s string) {
	a, err := wt.ParseArchiveInfo(s)
	parts := strings.Split(s, ":")
	wellFormed := len(parts) == 2
	var ms [2]*big.Int
	if wellFormed {
		for i, p := range parts {
			ok, _, m := durMeaning(p)
			if !ok {
				wellFormed = false
				break
			}
			ms[i] = m
		}
	}
	if err != nil {
		return
	}
	if !wellFormed {
		c.Violationf("archiveinfo-accepts-malformed", fw.J{"input": s}, "ParseArchiveInfo(%q) accepted a string that is not duration:duration", s)
		return
	}
	step, ret := ms[0], ms[1]
	if step.Sign() <= 0 || ret.Sign() <= 0 || step.Cmp(maxI32) > 0 || ret.Cmp(maxI32) > 0 {
		c.Violationf("archiveinfo-accepts-out-of-range", fw.J{"input": s}, "ParseArchiveInfo(%q) accepted a zero or over-long duration", s)
		return
	}
	if new(big.Int).Mod(ret, step).Sign() != 0 {
		c.Violationf("archiveinfo-accepts-nonmultiple", fw.J{"input": s}, "ParseArchiveInfo(%q) accepted a retention that is not a multiple of its step", s)
		return
	}
	if int64(a.SecondsPerPoint()) != step.Int64() || int64(a.NumberOfPoints()) != new(big.Int).Div(ret, step).Int64() {
		c.Violationf("archiveinfo-wrong-meaning", fw.J{"input": s, "step": int64(a.SecondsPerPoint()), "points": a.NumberOfPoints()}, "ParseArchiveInfo(%q) = step %d points %d", s, a.SecondsPerPoint(), a.NumberOfPoints())
		return
	}
	c.Count("archiveinfo_strings_accepted", 1)
}

// civil date helpers (Howard Hinnant's algorithms), independent of package time.
func daysFromCivil(y, m, d int64) int64 {
	if m <= 2 {
		y--
	}
	era := y / 400
	if y < 0 {
		era = (y - 399) / 400
	}
	yoe := y - era*400
	mp := (m + 9) % 12
	doy := (153*mp+2)/5 + d - 1
	doe := yoe*365 + yoe/4 - yoe/100 + doy
	return era*146097 + doe - 719468
}

func civilFromDays(z int64) (y, m, d int64) {
	z += 719468
	era := z / 146097
	if z < 0 {
		era = (z - 146096) / 146097
	}
	doe := z - era*146097
	yoe := (doe - doe/1460 + doe/36524 - doe/146096) / 365
	y = yoe + era*400
	doy := doe - (365*yoe + yoe/4 - yoe/100)
	mp := (5*doy + 2) / 153
	d = doy - (153*mp+2)/5 + 1
	if mp < 10 {
		m = mp + 3
	} else {
		m = mp - 9
	}
	if m <= 2 {
		y++
	}
	return
}

func renderTimestamp(t uint32) string {
	days := int64(t) / 86400
	rem := int64(t) % 86400
	y, m, d := civilFromDays(days)
	return fmt.Sprintf("%04d-%02d-%02dT%02d:%02d:%02dZ", y, m, d, rem/3600, rem%3600/60, rem%60)
}

func daysInMonth(y, m int64) int64 {
	switch m {
	case 4, 6, 9, 11:
		return 30
	case 2:
		if (y%4 == 0 && y%100 != 0) || y%400 == 0 {
			return 29
		}
		return 28
	}
	return 31
}

var tsRe = regexp.MustCompile(`^(\d{4})-(\d{2})-(\d{2})T(\d{2}):(\d{2}):(\d{2})Z$`)
var tsFracRe = regexp.MustCompile(`^\d{4}-\d{2}-\d{2}T\d{2}:\d{2}:\d{2}[.,]\d+Z$`)

func c19CheckTimestampString(c *fw.Ctx, s string) {
	t, err := wt.ParseTimestamp(s)
	m := tsRe.FindStringSubmatch(s)
	if m == nil {
		if err == nil {
			if tsFracRe.MatchString(s) {
				c.Count("timestamp_fraction_not_judged", 1)
				return
			}
			c.Violationf("timestamp-accepts-malformed", fw.J{"input": s, "value": uint32(t)}, "ParseTimestamp(%q) = %d, but the string is not in the fixed UTC layout", s, t)
		} else {
			c.Count("timestamp_bad_field_rejected", 1)
		}
		return
	}
	var f [6]int64
	for i := range f {
		fmt.Sscanf(m[i+1], "%d", &f[i])
	}
	validCal := f[1] >= 1 && f[1] <= 12 && f[2] >= 1 && f[2] <= daysInMonth(f[0], f[1]) && f[3] <= 23 && f[4] <= 59 && f[5] <= 59
	if !validCal {
		if err == nil {
			c.Violationf("timestamp-accepts-invalid-calendar", fw.J{"input": s, "value": uint32(t)}, "ParseTimestamp(%q) = %d, but the date does not exist", s, t)
		} else {
			c.Count("timestamp_bad_field_rejected", 1)
		}
		return
	}
	meaning := daysFromCivil(f[0], f[1], f[2])*86400 + f[3]*3600 + f[4]*60 + f[5]
	inRange := meaning >= 0 && meaning <= math.MaxUint32
	if !inRange {
		if err == nil {
			c.Violationf("timestamp-wraps", fw.J{"input": s, "value": uint32(t), "meaning": meaning}, "ParseTimestamp(%q) = %d, the instant %d is outside the 32-bit range and must be rejected", s, t, meaning)
		} else {
			c.Count("timestamp_out_of_range_rejected", 1)
		}
		return
	}
	if err != nil {
		c.Violationf("timestamp-rejects-printed-form", fw.J{"input": s, "err": err.Error()}, "ParseTimestamp(%q) failed (%v) although it is the printed form of %d", s, err, meaning)
		return
	}
	if int64(t) != meaning {
		c.Violationf("timestamp-wrong-meaning", fw.J{"input": s, "value": uint32(t), "meaning": meaning}, "ParseTimestamp(%q) = %d, meaning is %d", s, t, meaning)
		return
	}
	c.Count("timestamp_strings_accepted", 1)
}

func c19DurationRoundTrip(c *fw.Ctx, d int32) bool {
	s := wt.Duration(d).String()
	g, err := wt.ParseDuration(s)
	if err != nil || int32(g) != d {
		c.Violationf("duration-roundtrip", fw.J{"d": d, "printed": s, "parsed": int64(g), "err": fmt.Sprint(err)}, "ParseDuration(Duration(%d).String()=%q) = %d, %v", d, s, g, err)
		return false
	}
	return true
}

func c19TimestampRoundTrip(c *fw.Ctx, t uint32, render bool) bool {
	s := wt.Timestamp(t).String()
	g, err := wt.ParseTimestamp(s)
	if err != nil || uint32(g) != t {
		c.Violationf("timestamp-roundtrip", fw.J{"t": t, "printed": s, "parsed": uint32(g), "err": fmt.Sprint(err)}, "ParseTimestamp(Timestamp(%d).String()=%q) = %d, %v", t, s, g, err)
		return false
	}
	if render {
		if want := renderTimestamp(t); s != want {
			c.Violationf("timestamp-rendering", fw.J{"t": t, "printed": s, "want": want}, "Timestamp(%d).String() = %q, the UTC calendar rendering is %q", t, s, want)
			return false
		}
		c.Count("timestamp_render_checked", 1)
	}
	return true
}

const c19Alphabet = "0123456789smhdwy:,+- "

// nthString returns the idx-th string of the enumeration of all strings over the alphabet by length.
func nthString(idx int64) string {
	n := int64(len(c19Alphabet))
	length := 0
	count := int64(1)
	for idx >= count {
		idx -= count
		length++
		count *= n
	}
	b := make([]byte, length)
	for i := length - 1; i >= 0; i-- {
		b[i] = c19Alphabet[idx%n]
		idx /= n
	}
	return string(b)
}

func stringsUpTo(maxLen int) int64 {
	n := int64(len(c19Alphabet))
	total, count := int64(0), int64(1)
	for l := 0; l <= maxLen; l++ {
		total += count
		count *= n
	}
	return total
}

func (c19) Run(c *fw.Ctx) {
	r := c.Rng
	shards := int64(c19QuickCases)
	thorough := c.Tier == "thorough"
	if thorough {
		shards = c19ThoroughShards
	}
	idx := int64(c.Index)
	rt := int64(0)
	// the process's local time zone is an environment condition: printing and parsing are defined in UTC. A quarter of
	// the cases (shards) runs east, a quarter west of Greenwich
	switch c.Index % 4 {
	case 2:
		old := time.Local
		time.Local = time.FixedZone("JST", 9*3600)
		defer func() { time.Local = old }()
		c.Count("cases_in_a_non_utc_zone", 1)
	case 3:
		old := time.Local
		time.Local = time.FixedZone("PST", -8*3600)
		defer func() { time.Local = old }()
		c.Count("cases_in_a_non_utc_zone", 1)
	}

	// ---- round trips
	if thorough {
		// exhaustive shards of [0,2^31) and [0,2^32)
		dPer := (int64(1) << 31) / shards
		for d := idx * dPer; d < (idx+1)*dPer; d++ {
			if !c19DurationRoundTrip(c, int32(d)) {
				return
			}
		}
		c.Count("duration_roundtrips", dPer)
		tPer := (int64(1) << 32) / shards
		for t := idx * tPer; t < (idx+1)*tPer; t++ {
			if !c19TimestampRoundTrip(c, uint32(t), t%16 == idx%16) {
				return
			}
		}
		c.Count("timestamp_roundtrips", tPer)
		rt = dPer + tPer
	} else {
		for i := 0; i < 20000; i++ {
			if !c19DurationRoundTrip(c, int32(r.Int31())) || !c19TimestampRoundTrip(c, r.Uint32(), i%8 == 0) {
				return
			}
		}
		c.Count("duration_roundtrips", 20000)
		c.Count("timestamp_roundtrips", 20000)
		rt = 40000
	}
	if idx == 0 {
		// boundaries: multiples of every unit +-1, powers of two +-1, extremes
		var ds []int64
		for _, u := range unitSecs {
			for k := int64(0); k < 70; k++ {
				for e := int64(-1); e <= 1; e++ {
					ds = append(ds, k*u+e)
				}
			}
			ds = append(ds, (math.MaxInt32/u)*u, (math.MaxInt32/u)*u-1, (math.MaxInt32/u)*u+1)
		}
		for p := uint(0); p <= 31; p++ {
			ds = append(ds, int64(1)<<p-1, int64(1)<<p, int64(1)<<p+1)
		}
		for _, d := range ds {
			if d >= 0 && d <= math.MaxInt32 {
				c19DurationRoundTrip(c, int32(d))
				c.Count("duration_roundtrips", 1)
			}
		}
		var tsb []int64
		for p := uint(0); p <= 32; p++ {
			tsb = append(tsb, int64(1)<<p-1, int64(1)<<p, int64(1)<<p+1)
		}
		for y := int64(1970); y <= 2106; y++ {
			b := daysFromCivil(y, 1, 1) * 86400
			lp := daysFromCivil(y, 2, 28) * 86400
			tsb = append(tsb, b-1, b, b+1, lp+86399, lp+86400, lp+2*86400)
		}
		for _, t := range tsb {
			if t >= 0 && t <= math.MaxUint32 {
				c19TimestampRoundTrip(c, uint32(t), true)
				c.Count("timestamp_roundtrips", 1)
			}
		}
		for m := 1; m <= 8; m++ {
			s := wt.AggregationMethod(m).String()
			g, err := wt.AggregationMethodString(s)
			if err != nil || int(g) != m {
				c.Violationf("method-roundtrip", fw.J{"method": m, "printed": s, "err": fmt.Sprint(err)}, "AggregationMethodString(%q) = %d, %v; want %d", s, g, err, m)
			}
			if want := model.MethodNames[m]; s != want {
				c.Violationf("method-name", fw.J{"method": m, "printed": s, "want": want}, "AggregationMethod(%d).String() = %q, want %q", m, s, want)
			}
			c.Count("method_roundtrips", 1)
		}
		for _, s := range []string{"", "Average", "avg", "AggregationMethod(9)", "sum ", " sum"} {
			if _, err := wt.AggregationMethodString(s); err == nil {
				c.Violationf("method-accepts-unknown", fw.J{"input": s}, "AggregationMethodString(%q) accepted", s)
			}
		}
		// boundary numerals
		for _, s := range []string{"2147483647s", "2147483648s", "2147483649s", "4294967296s", "4294967297s", "35791394m", "35791395m", "596523h", "596524h", "24855d", "24856d", "3550w", "3551w", "68y", "69y",
			"0s", "00s", "007s", "01m", "0y", "9999999999999999999999999999999999999999s", "18446744073709551617s", "1", "s", "1ss", "1sm", "1 s", " 1s", "1s ", "+1s", "-1s", "1S", "1x", "1.5s", "1e3s", "１s", "1s\n", "0x10s", "1_000s"} {
			c19CheckDurationString(c, s)
		}
		for _, s := range []string{"1s:10s", "10s:1s", "10s:15s", "10s:10s", "0s:10s", "10s:0s", "1m:1h", "60s:3600s", "7s:1m", "1s:2147483647s", "1s:2147483648s", "2s:2147483647s", "1s:68y", "1y:68y", "1y:69y", ":", "1s:", ":1s", "1s:1s:1s", "1s;10s", "1s:10s,", "-1s:10s", "1s:-10s"} {
			c19CheckArchiveInfoString(c, s)
			if strings.Count(s, ":") == 1 {
				p := strings.Split(s, ":")
				ok1, _, m1 := durMeaning(p[0])
				ok2, _, m2 := durMeaning(p[1])
				if ok1 && ok2 && m1.Sign() > 0 && new(big.Int).Mod(m2, m1).Sign() != 0 {
					if _, err := wt.ParseArchiveInfo(s); err != nil {
						c.Count("archiveinfo_nonmultiple_rejected", 1)
					}
				}
			}
		}
		for _, s := range []string{"", ",", "1s:10s,", ",1s:10s", "1s:10s,,10s:100s", "1s:10s 10s:100s", "1s:10s, 10s:100s"} {
			if l, err := wt.ParseArchiveInfoList(s); err == nil {
				c.Violationf("list-accepts-malformed", fw.J{"input": s, "list": l.String()}, "ParseArchiveInfoList(%q) accepted", s)
			}
		}
		// timestamp field boundaries
		for _, s := range []string{"1970-01-01T00:00:00Z", "1969-12-31T23:59:59Z", "2106-02-07T06:28:15Z", "2106-02-07T06:28:16Z", "2106-02-07T06:28:14Z", "2200-01-01T00:00:00Z", "9999-12-31T23:59:59Z", "0000-01-01T00:00:00Z", "0001-01-01T00:00:00Z",
			"2242-03-16T12:56:32Z", "1833-11-24T17:31:44Z", "2038-01-19T03:14:07Z", "2038-01-19T03:14:08Z",
			"2020-13-01T00:00:00Z", "2020-00-01T00:00:00Z", "2020-01-32T00:00:00Z", "2020-01-00T00:00:00Z", "2021-02-29T00:00:00Z", "2020-02-29T00:00:00Z", "2100-02-29T00:00:00Z", "2000-02-29T00:00:00Z", "2020-04-31T00:00:00Z",
			"2020-01-01T24:00:00Z", "2020-01-01T23:60:00Z", "2020-01-01T23:59:60Z", "2020-01-01T23:59:59z", "2020-01-01t23:59:59Z", "2020-01-01T23:59:59", "2020-01-01T23:59:59+00:00", "2020-01-01T23:59:59+09:00", "2020-01-01 23:59:59Z",
			"2020-1-1T23:59:59Z", "20200101T235959Z", "2020-01-01T23:59:59.5Z", "2020-01-01T23:59:59,5Z", " 2020-01-01T23:59:59Z", "2020-01-01T23:59:59Z ", "", "0", "now", "1577836800"} {
			c19CheckTimestampString(c, s)
		}
	}

	// ---- the CLI flag value types print/parse the same syntaxes (sampled through the real binary)
	if idx == 1 {
		dir := c.TmpDir()
		l := model.Layout{Archs: []model.Arch{{Step: 60, Points: 120}, {Step: 3600, Points: 48}}, Method: 2, Xff: 0.5}
		for m := 1; m <= 8; m++ {
			p := filepath.Join(dir, fmt.Sprintf("flag-%d.wsp", m))
			h, _ := wt.NewHeader(wt.Sum, 0.5, archiveInfoList(l))
			res := runCLI(c, "generate", "-dest", p, "-fill=false", "-agg-method", wt.AggregationMethod(m).String(), "-x-files-factor", "0.5", "-retentions", h.ArchiveInfoList().String())
			c.Count("cli_flag_checks", 1)
			if (res.Exit == 0) != (m <= 6) {
				c.Violationf("cli-flag-method", res.brief(), "generate -agg-method %s exited %d", wt.AggregationMethod(m).String(), res.Exit)
			}
			if res.Exit == 0 {
				ph, _, _, err := rawOfFile(p)
				if err != nil || int(ph.Method) != m || ph.Steps[0] != 60 || ph.Points[1] != 48 {
					c.Violationf("cli-flag-meaning", res.brief(), "generate created a header that does not match the printed flag values")
				}
			}
		}
		fx := filepath.Join(dir, "flag-1.wsp")
		for i := 0; i < 12; i++ {
			a, b := uint32(r.Int63n(1<<32)), uint32(r.Int63n(1<<32))
			if a > b {
				a, b = b, a
			}
			res := runCLI(c, "view", "-src-base", dir, "-src", filepath.Base(fx), "-from", wt.Timestamp(a).String(), "-until", wt.Timestamp(b).String(), "-text-out", "")
			c.Count("cli_flag_checks", 1)
			if res.Exit != 0 {
				c.Violationf("cli-flag-timestamp", res.brief(), "view rejected -from/-until given in the printed form of timestamps %d and %d", a, b)
			}
		}
		for _, bad := range []string{"2200-01-01T00:00:00Z", "1969-12-31T23:59:59Z", "2106-02-07T06:28:16Z", "2020-01-01T00:00:00", "2020-01-01T00:00:00+09:00", "yesterday"} {
			res := runCLI(c, "view", "-src-base", dir, "-src", filepath.Base(fx), "-from", "1970-01-01T00:00:01Z", "-until", bad, "-text-out", "")
			c.Count("cli_flag_checks", 1)
			if res.Exit == 0 {
				c.Violationf("cli-flag-timestamp-accepts", res.brief(), "view accepted -until %q", bad)
			}
		}
		// the commands forward -from/-until/-archive (and their own clock) to a remote server in the printed syntax: what
		// the server parses out of the request is what was given on the command line
		{
			var mu sync.Mutex
			var seen []url.Values
			var paths []string
			stub := httptest.NewServer(http.HandlerFunc(func(w http.ResponseWriter, req *http.Request) {
				mu.Lock()
				seen = append(seen, req.URL.Query())
				paths = append(paths, req.URL.Path)
				mu.Unlock()
				if req.URL.Path == "/items" {
					w.Write([]byte("grp\n"))
					return
				}
				http.Error(w, "stub", http.StatusInternalServerError)
			}))
			for i := 0; i < 10; i++ {
				a, b := uint32(1+r.Int63n(1<<32-1)), uint32(1+r.Int63n(1<<32-1))
				if a > b {
					a, b = b, a
				}
				arch := r.Intn(4) - 1
				mu.Lock()
				seen, paths = nil, nil
				mu.Unlock()
				var res cliResult
				wantPath := "/view"
				if i%2 == 0 {
					res = runCLI(c, "view", "-src-base", stub.URL, "-src", "d/f.wsp", "-archive", strconv.Itoa(arch), "-from", wt.Timestamp(a).String(), "-until", wt.Timestamp(b).String(), "-text-out", "")
				} else {
					wantPath = "/sum"
					res = runCLI(c, "sum", "-src-base", stub.URL, "-item", "grp", "-src", "*.wsp", "-archive", strconv.Itoa(arch), "-from", wt.Timestamp(a).String(), "-until", wt.Timestamp(b).String(), "-text-out", "")
				}
				c.Count("cli_flag_checks", 1)
				mu.Lock()
				var q url.Values
				for k := range seen {
					if paths[k] == wantPath {
						q = seen[k]
					}
				}
				mu.Unlock()
				if q == nil {
					c.Violationf("cli-forwarding-no-request", res.brief(), "the command did not send a %s request to the server", wantPath)
					break
				}
				c.Count("forwarded_requests_checked", 1)
				pf, e1 := wt.ParseTimestamp(q.Get("from"))
				pu, e2 := wt.ParseTimestamp(q.Get("until"))
				pn, e3 := wt.ParseTimestamp(q.Get("now"))
				if e1 != nil || e2 != nil || e3 != nil || uint32(pf) != a || uint32(pu) != b || int64(pn) < res.T0-1 || int64(pn) > res.T1+1 || q.Get("retention") != strconv.Itoa(arch) {
					c.Violationf("cli-forwarding-changes-arguments", fw.J{"run": res.brief(), "query": q, "from": a, "until": b, "archive": arch, "clock_between": []int64{res.T0, res.T1}},
						"%s -from %s -until %s -archive %d against a server sent from=%q until=%q now=%q retention=%q", wantPath[1:], wt.Timestamp(a), wt.Timestamp(b), arch, q.Get("from"), q.Get("until"), q.Get("now"), q.Get("retention"))
					break
				}
			}
			stub.Close()
		}
		// an option given twice: the flag value is set twice, and after the second Set it means the second string
		{
			p := filepath.Join(dir, "flag-twice.wsp")
			res := runCLI(c, "generate", "-dest", p, "-fill=false", "-agg-method", "max", "-agg-method", "sum", "-x-files-factor", "0.25", "-x-files-factor", "0.5",
				"-retentions", "1m:2h", "-retentions", "1h:2d")
			c.Count("cli_flag_checks", 1)
			if res.Exit != 0 {
				c.Violationf("cli-flag-set-twice", res.brief(), "generate with every option given twice exited %d", res.Exit)
			} else if ph, _, _, err := rawOfFile(p); err != nil || ph.Method != 2 || ph.Count != 1 || ph.Steps[0] != 3600 || ph.Points[0] != 48 || ph.XffBits != math.Float32bits(0.5) {
				c.Violationf("cli-flag-set-twice", fw.J{"run": res.brief(), "header": fmt.Sprintf("%+v", ph)}, "generate -retentions 1m:2h -retentions 1h:2d (and -agg-method max/sum, -x-files-factor 0.25/0.5) created a header that is not the meaning of the last values")
			}
			fx2 := filepath.Join(dir, "flag-1.wsp")
			r2 := runCLI(c, "view", "-src-base", dir, "-src", filepath.Base(fx2), "-until", "2200-01-01T00:00:00Z", "-until", "2020-01-01T00:00:00Z", "-from", "2019-12-31T00:00:00Z", "-text-out", "")
			c.Count("cli_flag_checks", 1)
			if r2.Exit == 0 {
				c.Violationf("cli-flag-timestamp-accepts", r2.brief(), "view accepted an out-of-range -until given before a valid one")
			}
		}
		for _, bad := range []string{"1m:2h,", "+1m:2h", "1m:90s", "1m", "2147483648s:4294967296s", "1x:2y"} {
			p := filepath.Join(dir, "flag-bad.wsp")
			res := runCLI(c, "generate", "-dest", p, "-fill=false", "-agg-method", "sum", "-retentions", bad)
			c.Count("cli_flag_checks", 1)
			if res.Exit == 0 {
				c.Violationf("cli-flag-retentions-accepts", res.brief(), "generate accepted -retentions %q", bad)
				os.Remove(p)
			}
		}
	}

	// ---- archive list round trips
	for i := 0; i < 100; i++ {
		l := genLayout(r, layoutOpts{})
		aa := archiveInfoList(l)
		h, err := wt.NewHeader(wt.AggregationMethod(l.Method), l.Xff, aa)
		if err != nil {
			panic(err)
		}
		s := h.ArchiveInfoList().String()
		g, err := wt.ParseArchiveInfoList(s)
		if err != nil || !g.Equal(h.ArchiveInfoList()) || g.String() != s {
			c.Violationf("list-roundtrip", fw.J{"layout": l, "printed": s, "err": fmt.Sprint(err), "parsed": g.String()}, "ParseArchiveInfoList(%q) = %q, %v", s, g.String(), err)
			return
		}
		// the parsed list carries the same offsets as the header's
		h2, err := wt.NewHeader(wt.AggregationMethod(l.Method), l.Xff, g)
		if err != nil || h2.String() != h.String() {
			c.Violationf("list-roundtrip-header", fw.J{"layout": l, "printed": s}, "header built from the parsed list differs")
			return
		}
		c.Count("list_roundtrips", 1)
	}

	// ---- exact meaning over the enumerated strings
	maxLen := 4
	if thorough {
		maxLen = 5
	}
	total := stringsUpTo(maxLen)
	for k := idx; k < total; k += shards {
		s := nthString(k)
		c19CheckDurationString(c, s)
		if strings.IndexByte(s, ':') >= 0 {
			c19CheckArchiveInfoString(c, s)
			if l, err := wt.ParseArchiveInfoList(s); err == nil {
				// accepted lists must be made of well-formed, C07-valid parts
				var archs []model.Arch
				for _, a := range l {
					archs = append(archs, model.Arch{Step: uint32(a.SecondsPerPoint()), Points: a.NumberOfPoints()})
				}
				if v, why := model.ValidLayout(archs); v == model.Invalid {
					c.Violationf("list-accepts-invalid", fw.J{"input": s, "why": why}, "ParseArchiveInfoList(%q) accepted an invalid list: %s", s, why)
				}
				for _, part := range strings.Split(s, ",") {
					if _, err := wt.ParseArchiveInfo(part); err != nil {
						c.Violationf("list-accepts-malformed", fw.J{"input": s, "part": part}, "ParseArchiveInfoList(%q) accepted although part %q is malformed", s, part)
					}
				}
			}
		}
		if c.Violated() {
			return
		}
	}
	// random longer strings biased to near-valid shapes
	for i := 0; i < 3000; i++ {
		var s string
		switch r.Intn(4) {
		case 0:
			s = nthString(stringsUpTo(5) + r.Int63n(stringsUpTo(7)-stringsUpTo(5)))
		case 1:
			s = fmt.Sprintf("%d%c", r.Int63n(1<<33), "smhdwy"[r.Intn(6)])
		case 2:
			s = fmt.Sprintf("%d%c:%d%c", r.Intn(100), "smhdwy"[r.Intn(6)], r.Intn(10000), "smhdwy"[r.Intn(6)])
		default:
			s = fmt.Sprintf("%d%c%c", r.Intn(1000), "smhdwy+- "[r.Intn(9)], "smhdwy:,"[r.Intn(8)])
		}
		c19CheckDurationString(c, s)
		if strings.Count(s, ":") == 1 {
			c19CheckArchiveInfoString(c, s)
			p := strings.Split(s, ":")
			ok1, _, m1 := durMeaning(p[0])
			ok2, _, m2 := durMeaning(p[1])
			if ok1 && ok2 && m1.Sign() > 0 && new(big.Int).Mod(m2, m1).Sign() != 0 {
				if _, err := wt.ParseArchiveInfo(s); err != nil {
					c.Count("archiveinfo_nonmultiple_rejected", 1)
				}
			}
		}
	}
	// timestamp strings: canonical renderings with one field mutated
	for i := 0; i < 2000; i++ {
		c19CheckTimestampString(c, c19MutatedTimestamp(r))
	}
	if rt >= 1000 {
		c.Nontrivial("shard", c.Tier, idx)
	}
	if c.Index < 8 {
		c.Sample(fw.J{"shard": idx, "of": shards, "round_trips": rt, "enumerated_strings_up_to_len": maxLen, "example_strings": []string{nthString(idx + 400), nthString(idx + 9000), c19MutatedTimestamp(r)}})
	}
}

func c19MutatedTimestamp(r *rand.Rand) string {
	y := int64(1960 + r.Intn(160))
	if r.Intn(6) == 0 {
		y = int64(r.Intn(10000))
	}
	mo, d, h, mi, s := int64(1+r.Intn(12)), int64(1+r.Intn(28)), int64(r.Intn(24)), int64(r.Intn(60)), int64(r.Intn(60))
	switch r.Intn(12) {
	case 0:
		mo = int64(r.Intn(20))
	case 1:
		d = int64(r.Intn(40))
	case 2:
		h = int64(r.Intn(30))
	case 3:
		mi = int64(r.Intn(70))
	case 4:
		s = int64(r.Intn(70))
	case 5:
		y, mo, d, h, mi, s = 2106, 2, 7, 6, 28, int64(10+r.Intn(10))
	case 6:
		y, mo, d, h, mi, s = 1969, 12, 31, 23, 59, int64(50+r.Intn(10))
	}
	str := fmt.Sprintf("%04d-%02d-%02dT%02d:%02d:%02dZ", y, mo, d, h, mi, s)
	switch r.Intn(14) {
	case 0:
		str = strings.ToLower(str)
	case 1:
		str = strings.TrimSuffix(str, "Z") + "+00:00"
	case 2:
		str = strings.TrimSuffix(str, "Z")
	case 3:
		str = strings.Replace(str, "T", " ", 1)
	}
	return str
}
