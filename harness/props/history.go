package props

import (
	"math/rand"

	"verifharness/model"
)

// Op is one step of a generated history.
type Op struct {
	Kind  string         `json:"kind"` // single | batch | advance | reopen | sync
	Arch  int            `json:"arch"` // -1 = best
	Pt    model.PtBits   `json:"pt,omitempty"`
	Pts   []model.PtBits `json:"pts,omitempty"`
	Delta int64          `json:"delta,omitempty"`
	Now   int64          `json:"now"` // clock at which the op executes (after an advance: the new clock)
}

type histOpts struct {
	hostileValues bool // NaN payloads / infinities
	tooOld        bool // batches may contain points older than the target archive (C03)
	futureSingle  bool // single updates may be in the future / too old (rejected)
	maxBatch      int
	noReopen      bool
	futureBatch   bool // batches may carry points stamped shortly AFTER the clock (a sender whose clock runs ahead)
}

// inRangeTime picks t with now-ret < t <= now, biased to the edges.
func inRangeTime(r *rand.Rand, now, ret int64) int64 {
	switch r.Intn(8) {
	case 0:
		return now
	case 1:
		return now - ret + 1
	case 2:
		return now - minI64(ret-1, 1+r.Int63n(3))
	default:
		return now - r.Int63n(ret)
	}
}

func boolI64(b bool) int64 {
	if b {
		return 1
	}
	return 0
}

func minI64(a, b int64) int64 {
	if a < b {
		return a
	}
	return b
}

func maxI64(a, b int64) int64 {
	if a > b {
		return a
	}
	return b
}

// genOp generates the next operation of a history at clock now.
func genOp(r *rand.Rand, l model.Layout, now int64, o histOpts) Op {
	k := len(l.Archs)
	if o.maxBatch == 0 {
		o.maxBatch = 40
	}
	c := r.Intn(20)
	switch {
	case c < 6: // single update
		arch := -1
		if r.Intn(3) != 0 {
			arch = r.Intn(k)
		}
		ret := l.MaxRet()
		if arch >= 0 && r.Intn(8) != 0 {
			ret = l.Archs[arch].Ret()
		}
		t := inRangeTime(r, now, ret)
		if o.futureSingle {
			switch r.Intn(10) {
			case 0:
				t = now + 1
			case 1:
				t = now - l.MaxRet()
			case 2:
				t = now - l.MaxRet() - 1
			}
		}
		return Op{Kind: "single", Arch: arch, Pt: model.PtBits{T: uint32(t), Bits: genValueBits(r, o.hostileValues)}, Now: now}
	case c < 13: // batch
		arch := -1
		if r.Intn(3) != 0 {
			arch = r.Intn(k)
		}
		n := 1 + r.Intn(o.maxBatch)
		if r.Intn(10) == 0 {
			n = 0
		}
		pts := make([]model.PtBits, 0, n+4)
		retT := l.MaxRet()
		var a model.Arch
		if arch >= 0 {
			a = l.Archs[arch]
			retT = a.Ret()
		} else {
			a = l.Archs[r.Intn(k)]
		}
		dense := r.Intn(3) == 0
		base := inRangeTime(r, now, retT)
		for i := 0; i < n; i++ {
			var t int64
			if dense {
				t = base - int64(i)*int64(a.Step)
				if t <= now-retT {
					t = inRangeTime(r, now, retT)
				}
			} else {
				t = inRangeTime(r, now, retT)
			}
			pts = append(pts, model.PtBits{T: uint32(t), Bits: genValueBits(r, o.hostileValues)})
		}
		if o.futureBatch && r.Intn(3) == 0 && now+4*l.MaxStep() < 1<<32 { // (points ahead of the clock must stay inside the clock domain with their coarser intervals)
			// points ahead of the caller's clock, consecutive, sometimes continuing a dense run that ends at the clock
			ahead := minI64(4, 2*l.MaxStep()-1)
			if r.Intn(2) == 0 && a.Points <= 600 {
				// one point per interval of the whole ring, continued ahead of the clock: a run of consecutive intervals
				// longer than the archive itself
				S := int64(a.Step)
				for j := int64(a.Points) - 1; j >= 0; j-- {
					if t := model.AlignDown(now, a.Step) - j*S; t > now-retT && t > 0 {
						pts = append(pts, model.PtBits{T: uint32(t), Bits: genValueBits(r, o.hostileValues)})
					}
				}
				for j := int64(1); j <= 3 && model.AlignDown(now, a.Step)+j*S <= now+2*l.MaxStep()-1; j++ {
					pts = append(pts, model.PtBits{T: uint32(model.AlignDown(now, a.Step) + j*S), Bits: genValueBits(r, o.hostileValues)})
				}
			}
			for j := int64(1); j <= ahead; j++ {
				if r.Intn(4) != 0 {
					pts = append(pts, model.PtBits{T: uint32(now + j), Bits: genValueBits(r, o.hostileValues)})
				}
			}
		}
		// lap collision inside the N+1-interval window: t and t+N*S both in (now-ret, now]
		if arch >= 0 && r.Intn(3) == 0 {
			lo := now - a.Ret() + 1
			if model.AlignDown(lo, a.Step)+a.Ret() <= now {
				pts = append(pts, model.PtBits{T: uint32(lo), Bits: genValueBits(r, o.hostileValues)},
					model.PtBits{T: uint32(model.AlignDown(lo, a.Step) + a.Ret()), Bits: genValueBits(r, o.hostileValues)})
			}
		}
		// duplicates of one timestamp and several raw timestamps of one slot
		if len(pts) > 0 && r.Intn(3) == 0 {
			p := pts[r.Intn(len(pts))]
			pts = append(pts, model.PtBits{T: p.T, Bits: genValueBits(r, o.hostileValues)})
			al := model.AlignDown(int64(p.T), a.Step)
			for j := 0; j < 2; j++ {
				t := al + r.Int63n(int64(a.Step))
				if t <= now && t > now-retT {
					pts = append(pts, model.PtBits{T: uint32(t), Bits: genValueBits(r, o.hostileValues)})
				}
			}
		}
		if o.tooOld && r.Intn(2) == 0 {
			// ages at and beyond the target's retention, up to beyond the max retention
			m := 1 + r.Intn(3)
			for j := 0; j < m; j++ {
				var t int64
				switch r.Intn(5) {
				case 4:
					t = now - retT - 1
					if now > 1<<31+1000 {
						t = 1 + r.Int63n(now-1<<31-1) // ancient: more than 2^31 s before the clock
					}
				case 0:
					t = now - retT // exactly the boundary: too old
				case 1:
					t = now - retT - 1
				case 2:
					t = now - l.MaxRet() - r.Int63n(int64(l.MaxStep())+1)
				default:
					t = now - retT - r.Int63n(maxI64(l.MaxRet()-retT, 1)+1)
				}
				if t >= 1 {
					pts = append(pts, model.PtBits{T: uint32(t), Bits: genValueBits(r, o.hostileValues)})
				}
			}
		}
		r.Shuffle(len(pts), func(i, j int) { pts[i], pts[j] = pts[j], pts[i] })
		return Op{Kind: "batch", Arch: arch, Pts: pts, Now: now}
	case c < 17: // clock advance
		a := l.Archs[r.Intn(k)]
		var d int64
		switch r.Intn(8) {
		case 0:
			d = 1
		case 1:
			d = int64(a.Step)
		case 2:
			d = a.Ret() - 1
		case 3:
			d = a.Ret()
		case 4:
			d = a.Ret() + 1
		case 5:
			d = 3 * a.Ret()
		default:
			d = 1 + r.Int63n(3*int64(a.Step))
		}
		if d < 1 {
			d = 1
		}
		hi := int64(1)<<32 - 1 - 2*l.MaxStep() - 1
		if now+d > hi {
			d = 0
		}
		if r.Intn(12) == 0 {
			// the clock steps BACK (NTP correction, another host): still inside the domain
			back := 1 + r.Int63n(a.Ret()+int64(a.Step))
			if now-back >= l.MaxRet()+2*l.MaxStep() {
				d = -back
			}
		}
		return Op{Kind: "advance", Delta: d, Now: now + d}
	case c < 19 && !o.noReopen:
		return Op{Kind: "reopen", Now: now}
	default:
		return Op{Kind: "sync", Now: now}
	}
}

// window kinds for reads
type window struct {
	From, Until int64
	Kind        string
}

// genWindows produces the C01 window set for one archive at clock now.
func genWindows(r *rand.Rand, a model.Arch, base uint32, now int64, n int) []window {
	ret := a.Ret()
	S := int64(a.Step)
	ws := []window{{now - ret, now, "whole"}}
	clampNN := func(x int64) int64 {
		if x < 0 {
			return 0
		}
		if x > 1<<32-1 {
			return 1<<32 - 1
		}
		return x
	}
	for len(ws) < n {
		var w window
		switch r.Intn(9) {
		case 0: // random inside
			f := now - r.Int63n(ret+1)
			u := f + r.Int63n(now-f+1)
			w = window{f, u, "random"}
		case 1: // sub-step
			f := now - r.Int63n(ret+1)
			u := f + r.Int63n(S)
			w = window{f, u, "substep"}
		case 2: // degenerate
			f := now - r.Int63n(ret+1)
			w = window{f, f, "degenerate"}
		case 3: // straddling now
			w = window{now - r.Int63n(3*S+1), now + r.Int63n(3*S+1), "straddle-now"}
		case 4: // straddling the retention edge
			w = window{now - ret - r.Int63n(3*S+1), now - ret + r.Int63n(3*S+1), "straddle-edge"}
		case 5: // from zero
			w = window{0, now - r.Int63n(ret+1), "from-zero"}
		case 6, 7: // crossing the physical end of the ring
			if base != 0 {
				span := ret // N*S
				// interval B congruent to base modulo N*S lying in (now-ret, now]
				k := (now - int64(base)) / span
				B := int64(base) + k*span
				if B > now-ret && B <= now {
					f := B - (1+r.Int63n(3))*S - r.Int63n(S)
					u := B + r.Int63n(3*S+1)
					w = window{f, u, "wrap"}
					break
				}
			}
			f := now - r.Int63n(ret+1)
			w = window{f, minI64(now, f+r.Int63n(4*S+1)), "random"}
		default: // exactly N slots
			w = window{now - ret, now, "whole"}
		}
		w.From, w.Until = clampNN(w.From), clampNN(w.Until)
		if w.From > w.Until {
			w.From, w.Until = w.Until, w.From
		}
		ws = append(ws, w)
	}
	return ws
}
