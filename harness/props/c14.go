package props

import (
	"bytes"
	"errors"
	"fmt"
	"math"
	"math/rand"

	wt "github.com/hnakamur/whispertool"

	"verifharness/fw"
	"verifharness/model"
)

// C14 Binary codec: encode/decode round-trips and frames exactly.

type c14 struct{}

func init() { fw.Register(c14{}) }

func (c14) Meta() fw.Meta {
	return fw.Meta{
		ID: "C14",
		Rule: "case = 60 generated objects over all seven message kinds (header of a valid layout, time series incl. the absent/zero series and ranges wider than 2^31, point list, point, value, timestamp, duration incl. negative, archive info); " +
			"values over float64 bit-pattern classes (+-0, denormals, +-Inf, quiet/signalling NaNs with payloads, random bits); for each object: decode(encode(x)) - into a destination that already holds an older object - bit-equal with empty remainder; decode(encode(x)++tail) leaves a remainder that is byte-equal to tail and the input bytes behind the message untouched; " +
			"2-5 concatenated messages decode in sequence; EVERY proper prefix (all of them up to 2 KiB, boundaries +-2 and 64 random cuts above) yields *WantLargerBufferError with len(prefix) < wanted <= len(encoding) and the grow-to-wanted retry loop succeeds within 4 rounds. " +
			"non-trivial = object with a non-empty payload (>= 1 value/point/archive) whose prefixes were all checked; distinct by encoding bytes." +
			" Every object is also appended onto a non-empty destination (with and without spare capacity): the result must be the old bytes followed by the encoding." +
			" While a decoded object is compared with the original, the bytes it was decoded from are inverted (and restored afterwards).",
		Assumptions: []string{
			"time series domain: step >= 1 and len(values) == uint32(until-from)/step (the count is not transmitted), or the all-zero absent series",
			"headers: layouts accepted by NewHeader (C07 decides which those are)",
		},
		Obligations: []string{"header_roundtrips", "timeseries_roundtrips", "points_roundtrips", "point_roundtrips", "value_roundtrips", "timestamp_roundtrips", "duration_roundtrips", "archiveinfo_roundtrips", "prefixes_checked", "retry_loops", "concat_sequences", "tail_alias_checked", "nan_payload_values", "absent_series_roundtrips", "wide_range_series", "negative_durations", "appends_onto_nonempty_destination"},
	}
}

func (c14) Cases(tier string) int {
	if tier == "thorough" {
		return 60000
	}
	return 500
}

// codecObj abstracts one encodable object.
type codecObj struct {
	kind string
	enc  []byte
	app  func(dst []byte) []byte // the object's AppendTo
	// dec decodes from src into a fresh object and returns the remainder and a description of any inequality with the original.
	dec     func(src []byte) (rest []byte, err error, diff string)
	payload int
}

func genValueAny(r *rand.Rand) wt.Value {
	var b uint64
	switch r.Intn(10) {
	case 0:
		b = 0
	case 1:
		b = 1 << 63
	case 2:
		b = uint64(r.Int63n(1 << 52)) // denormal
	case 3:
		b = 0x7ff0000000000000
	case 4:
		b = 0xfff0000000000000
	case 5:
		b = 0x7ff8000000000000 | uint64(r.Int63n(1<<51))
	case 6:
		b = 0x7ff0000000000000 | uint64(1+r.Int63n(1<<51-1)) // signalling NaN
	case 7:
		b = 0xfff8000000000000 | uint64(r.Int63n(1<<51))
	default:
		b = r.Uint64()
	}
	return wt.Value(math.Float64frombits(b))
}

func genTimestampAny(r *rand.Rand) wt.Timestamp {
	switch r.Intn(6) {
	case 0:
		return 0
	case 1:
		return math.MaxUint32
	case 2:
		return 1<<31 - 1 + wt.Timestamp(r.Intn(3))
	default:
		return wt.Timestamp(r.Uint32())
	}
}

func valuesEqualBits(a, b []wt.Value) int {
	if len(a) != len(b) {
		return 0
	}
	for i := range a {
		if valueBits(a[i]) != valueBits(b[i]) {
			return i
		}
	}
	return -1
}

func (c14) genObj(c *fw.Ctx, j int) codecObj {
	r := c.Rng
	switch j % 8 {
	case 0: // header
		l := genLayout(r, layoutOpts{maxPoints0: 2000})
		h, err := wt.NewHeader(wt.AggregationMethod(l.Method), l.Xff, archiveInfoList(l))
		if err != nil {
			panic(err)
		}
		enc := h.AppendTo(nil)
		return codecObj{kind: "header", enc: enc, app: h.AppendTo, payload: len(l.Archs), dec: func(src []byte) ([]byte, error, string) {
			var g wt.Header
			if junk := model.EncodeHeader(model.Layout{Archs: []model.Arch{{Step: 7, Points: 11}, {Step: 21, Points: 9}, {Step: 63, Points: 8}}, Method: 5, Xff: 0.25}); true {
				g.TakeFrom(junk) // the destination is REUSED: it already holds another header
			}
			rest, err := g.TakeFrom(src)
			defer scribble(src, rest, err)()
			if err != nil {
				return rest, err, ""
			}
			if g.String() != h.String() || math.Float32bits(g.XFilesFactor()) != math.Float32bits(h.XFilesFactor()) || g.MaxRetention() != h.MaxRetention() || g.AggregationMethod() != h.AggregationMethod() || !g.ArchiveInfoList().Equal(h.ArchiveInfoList()) || g.Size() != h.Size() || g.ExpectedFileSize() != h.ExpectedFileSize() {
				return rest, nil, fmt.Sprintf("decoded header %q != %q", g.String(), h.String())
			}
			return rest, nil, ""
		}}
	case 1, 2: // time series
		var ts *wt.TimeSeries
		var n int
		switch r.Intn(8) {
		case 0:
			ts = nil // absent series
			c.Count("absent_series_roundtrips", 1)
		case 1:
			ts = wt.NewTimeSeries(0, 0, 0, nil)
			c.Count("absent_series_roundtrips", 1)
		default:
			step := wt.Duration(1 + r.Intn(3600))
			switch r.Intn(6) {
			case 0:
				n = 0
			case 1:
				n = 1
			case 2:
				n = 1 + r.Intn(5000)
			default:
				n = r.Intn(60)
			}
			from := genTimestampAny(r)
			span := uint64(n) * uint64(step)
			if r.Intn(4) == 0 && n > 0 && n < 200 {
				// range wider than 2^31 seconds
				step = wt.Duration(math.MaxInt32/int32(n) - int32(r.Intn(1000)))
				if n >= 2 {
					n++ // n*step just above 2^31
				}
				span = uint64(n) * uint64(step)
			}
			if span > math.MaxUint32 {
				n = 3
				span = uint64(n) * uint64(step)
			}
			if uint64(from)+span > math.MaxUint32 {
				from = wt.Timestamp(uint64(math.MaxUint32) - span - uint64(r.Intn(5)))
			}
			// until may exceed from+n*step by less than a step
			extra := uint64(0)
			if step > 1 && r.Intn(2) == 0 {
				extra = uint64(r.Intn(int(step)))
			}
			until := uint64(from) + span + extra
			if until > math.MaxUint32 {
				until = uint64(from) + span
			}
			if span >= 1<<31 {
				c.Count("wide_range_series", 1)
			}
			vals := make([]wt.Value, n)
			for i := range vals {
				vals[i] = genValueAny(r)
			}
			ts = wt.NewTimeSeries(from, wt.Timestamp(until), step, vals)
		}
		enc := ts.AppendTo(nil)
		return codecObj{kind: "timeseries", enc: enc, app: ts.AppendTo, payload: n, dec: func(src []byte) ([]byte, error, string) {
			g := *wt.NewTimeSeries(1000, 1030, 10, []wt.Value{1, 2, 3}) // reused destination holding an older series
			rest, err := g.TakeFrom(src)
			defer scribble(src, rest, err)()
			if err != nil {
				return rest, err, ""
			}
			if g.FromTime() != ts.FromTime() || g.UntilTime() != ts.UntilTime() || g.Step() != ts.Step() {
				return rest, nil, fmt.Sprintf("decoded (%d,%d,%d) != (%d,%d,%d)", g.FromTime(), g.UntilTime(), g.Step(), ts.FromTime(), ts.UntilTime(), ts.Step())
			}
			if d := valuesEqualBits(g.Values(), ts.Values()); d >= 0 {
				return rest, nil, fmt.Sprintf("value %d differs (len %d vs %d)", d, len(g.Values()), len(ts.Values()))
			}
			return rest, nil, ""
		}}
	case 3: // point list
		n := 0
		switch r.Intn(5) {
		case 0:
			n = 0
		case 1:
			n = 1 + r.Intn(5000)
		default:
			n = 1 + r.Intn(40)
		}
		pts := make(wt.Points, n)
		for i := range pts {
			pts[i] = wt.Point{Time: genTimestampAny(r), Value: genValueAny(r)}
		}
		enc := pts.AppendTo(nil)
		return codecObj{kind: "points", enc: enc, app: pts.AppendTo, payload: n, dec: func(src []byte) ([]byte, error, string) {
			g := wt.Points{{Time: 1, Value: 2}, {Time: 3, Value: 4}} // reused destination holding an older list
			rest, err := g.TakeFrom(src)
			defer scribble(src, rest, err)()
			if err != nil {
				return rest, err, ""
			}
			if len(g) != len(pts) {
				return rest, nil, fmt.Sprintf("decoded %d points, want %d", len(g), len(pts))
			}
			for i := range g {
				if g[i].Time != pts[i].Time || valueBits(g[i].Value) != valueBits(pts[i].Value) {
					return rest, nil, fmt.Sprintf("point %d differs", i)
				}
			}
			return rest, nil, ""
		}}
	case 4:
		p := wt.Point{Time: genTimestampAny(r), Value: genValueAny(r)}
		return codecObj{kind: "point", enc: p.AppendTo(nil), app: p.AppendTo, payload: 1, dec: func(src []byte) ([]byte, error, string) {
			var g wt.Point
			rest, err := g.TakeFrom(src)
			defer scribble(src, rest, err)()
			if err == nil && (g.Time != p.Time || valueBits(g.Value) != valueBits(p.Value)) {
				return rest, nil, "point differs"
			}
			return rest, err, ""
		}}
	case 5:
		v := genValueAny(r)
		if v != v {
			c.Count("nan_payload_values", 1)
		}
		return codecObj{kind: "value", enc: v.AppendTo(nil), app: v.AppendTo, payload: 1, dec: func(src []byte) ([]byte, error, string) {
			var g wt.Value
			rest, err := g.TakeFrom(src)
			defer scribble(src, rest, err)()
			if err == nil && valueBits(g) != valueBits(v) {
				return rest, nil, fmt.Sprintf("value bits %x != %x", valueBits(g), valueBits(v))
			}
			return rest, err, ""
		}}
	case 6:
		if r.Intn(2) == 0 {
			t := genTimestampAny(r)
			return codecObj{kind: "timestamp", enc: t.AppendTo(nil), app: t.AppendTo, payload: 1, dec: func(src []byte) ([]byte, error, string) {
				var g wt.Timestamp
				rest, err := g.TakeFrom(src)
				defer scribble(src, rest, err)()
				if err == nil && g != t {
					return rest, nil, "timestamp differs"
				}
				return rest, err, ""
			}}
		}
		d := wt.Duration(int32(r.Uint32()))
		switch r.Intn(5) {
		case 0:
			d = math.MinInt32
		case 1:
			d = math.MaxInt32
		case 2:
			d = -1
		}
		if d < 0 {
			c.Count("negative_durations", 1)
		}
		return codecObj{kind: "duration", enc: d.AppendTo(nil), app: d.AppendTo, payload: 1, dec: func(src []byte) ([]byte, error, string) {
			var g wt.Duration
			rest, err := g.TakeFrom(src)
			defer scribble(src, rest, err)()
			if err == nil && g != d {
				return rest, nil, "duration differs"
			}
			return rest, err, ""
		}}
	default:
		a := wt.NewArchiveInfo(wt.Duration(int32(r.Uint32())), r.Uint32())
		enc := a.AppendTo(nil)
		return codecObj{kind: "archiveinfo", enc: enc, app: a.AppendTo, payload: 1, dec: func(src []byte) ([]byte, error, string) {
			var g wt.ArchiveInfo
			rest, err := g.TakeFrom(src)
			defer scribble(src, rest, err)()
			if err == nil && (!g.Equal(a) || !bytes.Equal(g.AppendTo(nil), enc)) {
				return rest, nil, "archive info differs"
			}
			return rest, err, ""
		}}
	}
}

func (c14) Run(c *fw.Ctx) {
	r := c.Rng
	var objs []codecObj
	for j := 0; j < 60 && !c.Violated(); j++ {
		o := (c14{}).genObj(c, j+c.Index)
		objs = append(objs, o)
		c14CheckObj(c, r, o)
		if o.payload > 0 {
			c.Nontrivial(o.kind, string(o.enc[:minI(len(o.enc), 64)]), len(o.enc))
		}
	}
	// encoding appends: onto a destination that already holds bytes (other messages, with or without spare capacity) the
	// result is those bytes, untouched, followed by exactly the encoding
	for q := 0; q < 20 && !c.Violated(); q++ {
		o := objs[r.Intn(len(objs))]
		if o.app == nil {
			continue
		}
		prefix := make([]byte, 1+r.Intn(90), 200+r.Intn(2)*4000)
		r.Read(prefix)
		if r.Intn(2) == 0 {
			prefix = append([]byte(nil), prefix...) // no spare capacity
		}
		keep := append([]byte(nil), prefix...)
		out := o.app(prefix)
		c.Count("appends_onto_nonempty_destination", 1)
		if len(out) != len(keep)+len(o.enc) || !bytes.Equal(out[:len(keep)], keep) || !bytes.Equal(out[len(keep):], o.enc) {
			c.Violationf("append-damages-destination:"+o.kind, fw.J{"kind": o.kind, "prefix_len": len(keep), "prefix_cap": cap(prefix), "encoding_len": len(o.enc), "result_len": len(out),
				"prefix_intact": len(out) >= len(keep) && bytes.Equal(out[:len(keep)], keep)},
				"%s.AppendTo onto %d existing bytes: the result is not those bytes followed by the %d-byte encoding", o.kind, len(keep), len(o.enc))
		}
	}
	// concatenations of 2-5 messages decode in sequence
	for q := 0; q < 10 && !c.Violated(); q++ {
		n := 2 + r.Intn(4)
		var seq []codecObj
		var buf []byte
		for i := 0; i < n; i++ {
			o := objs[r.Intn(len(objs))]
			seq = append(seq, o)
			buf = append(buf, o.enc...)
		}
		rest := buf
		for i, o := range seq {
			var err error
			var diff string
			rest, err, diff = o.dec(rest)
			if err != nil || diff != "" {
				c.Violationf("concat-decode:"+o.kind, fw.J{"sequence": kinds(seq), "index": i, "err": fmt.Sprint(err), "diff": diff}, "message %d (%s) of a concatenation of %d did not decode: err=%v %s", i, o.kind, n, err, diff)
				break
			}
		}
		if !c.Violated() && len(rest) != 0 {
			c.Violationf("concat-remainder", fw.J{"sequence": kinds(seq), "left": len(rest)}, "%d bytes left after decoding a concatenation", len(rest))
		}
		c.Count("concat_sequences", 1)
	}
	if c.Index < 64 {
		c.Sample(fw.J{"objects": 60, "kinds": kinds(objs[:minI(8, len(objs))]), "first_encoding_hex": fmt.Sprintf("%x", objs[0].enc[:minI(len(objs[0].enc), 40)])})
	}
}

func kinds(os []codecObj) []string {
	var k []string
	for _, o := range os {
		k = append(k, fmt.Sprintf("%s/%dB", o.kind, len(o.enc)))
	}
	return k
}

func c14CheckObj(c *fw.Ctx, r *rand.Rand, o codecObj) {
	enc := o.enc
	hexHead := fmt.Sprintf("%x", enc[:minI(len(enc), 48)])
	// exact round trip
	rest, err, diff := o.dec(append([]byte(nil), enc...))
	if err != nil {
		c.Violationf("roundtrip-error:"+o.kind, fw.J{"kind": o.kind, "enc_head": hexHead, "len": len(enc), "err": err.Error()}, "decode(encode(x)) of a %s failed: %v", o.kind, err)
		return
	}
	if diff != "" {
		c.Violationf("roundtrip-differs:"+o.kind, fw.J{"kind": o.kind, "enc_head": hexHead, "diff": diff}, "decode(encode(x)) of a %s is not x: %s", o.kind, diff)
		return
	}
	if len(rest) != 0 {
		c.Violationf("roundtrip-remainder:"+o.kind, fw.J{"kind": o.kind, "left": len(rest)}, "decode(encode(x)) of a %s left %d bytes", o.kind, len(rest))
		return
	}
	c.Count(o.kind+"_roundtrips", 1)
	// with a tail: remainder equals the tail and aliases the input
	tail := make([]byte, 1+r.Intn(40))
	r.Read(tail)
	buf := append(append([]byte(nil), enc...), tail...)
	rest, err, diff = o.dec(buf)
	if err != nil || diff != "" {
		c.Violationf("tail-decode:"+o.kind, fw.J{"kind": o.kind, "enc_head": hexHead, "err": fmt.Sprint(err), "diff": diff}, "decode(encode(x)++tail) of a %s failed: %v %s", o.kind, err, diff)
		return
	}
	if !bytes.Equal(rest, tail) {
		c.Violationf("tail-remainder:"+o.kind, fw.J{"kind": o.kind, "want_len": len(tail), "got_len": len(rest)}, "remainder after a %s is not the tail (len %d, want %d)", o.kind, len(rest), len(tail))
		return
	}
	// (the statement demands an untouched remainder, not that it aliases the input: aliasing is only counted)
	if len(rest) > 0 && &rest[0] == &buf[len(enc)] {
		c.Count("tail_aliases_input", 1)
	}
	if !bytes.Equal(buf[len(enc):], tail) {
		c.Violationf("tail-modified:"+o.kind, fw.J{"kind": o.kind}, "decoding a %s modified the bytes behind the message", o.kind)
		return
	}
	c.Count("tail_alias_checked", 1)

	// prefixes
	var cuts []int
	if len(enc) <= 2048 {
		for i := 0; i < len(enc); i++ {
			cuts = append(cuts, i)
		}
	} else {
		for _, b := range []int{0, 4, 8, 12, 16, 20, 28, len(enc) - 12, len(enc) - 8, len(enc) - 1} {
			for d := -2; d <= 2; d++ {
				if b+d >= 0 && b+d < len(enc) {
					cuts = append(cuts, b+d)
				}
			}
		}
		for i := 0; i < 64; i++ {
			cuts = append(cuts, r.Intn(len(enc)))
		}
	}
	full := append(append([]byte(nil), enc...), tail...)
	for _, n := range cuts {
		have := n
		rounds := 0
		for {
			rounds++
			_, err, _ := o.dec(full[:have:have])
			if have >= len(enc) {
				if err != nil {
					c.Violationf("retry-fails-at-full-length:"+o.kind, fw.J{"kind": o.kind, "enc_head": hexHead, "cut": n, "have": have, "err": err.Error()}, "%s: retry with %d bytes (complete message is %d) still fails: %v", o.kind, have, len(enc), err)
				}
				break
			}
			if err == nil {
				c.Violationf("truncated-decode-succeeds:"+o.kind, fw.J{"kind": o.kind, "enc_head": hexHead, "cut": n, "have": have, "len": len(enc)}, "%s: decoding the first %d of %d bytes succeeded", o.kind, have, len(enc))
				break
			}
			var w *wt.WantLargerBufferError
			if !errors.As(err, &w) {
				c.Violationf("truncated-wrong-error:"+o.kind, fw.J{"kind": o.kind, "enc_head": hexHead, "cut": n, "have": have, "err": err.Error()}, "%s: prefix of %d/%d bytes gave %q, not a want-larger-buffer error", o.kind, have, len(enc), err)
				break
			}
			if !(w.WantedBufSize > have && w.WantedBufSize <= len(enc)) {
				c.Violationf("wanted-size-out-of-range:"+o.kind, fw.J{"kind": o.kind, "enc_head": hexHead, "cut": n, "have": have, "wanted": w.WantedBufSize, "len": len(enc)}, "%s: prefix of %d bytes asks for %d, must be in (%d, %d]", o.kind, have, w.WantedBufSize, have, len(enc))
				break
			}
			if rounds > 4 {
				c.Violationf("retry-does-not-terminate:"+o.kind, fw.J{"kind": o.kind, "cut": n}, "%s: grow-to-wanted loop from %d bytes needs more than 4 rounds", o.kind, n)
				break
			}
			have = w.WantedBufSize
		}
		c.Count("prefixes_checked", 1)
		c.Count("retry_loops", int64(rounds))
		if c.Violated() {
			return
		}
	}
}

// scribble inverts the bytes a successful decode consumed, for as long as the decoded object is being compared with the
// original (the returned function restores them): a decoded object is a value of its own, it must not keep looking at
// the caller's buffer, which the caller is free to reuse for the next message.
func scribble(src, rest []byte, err error) func() {
	if err != nil || len(rest) > len(src) {
		return func() {}
	}
	n := len(src) - len(rest)
	for i := 0; i < n; i++ {
		src[i] ^= 0xFF
	}
	return func() {
		for i := 0; i < n; i++ {
			src[i] ^= 0xFF
		}
	}
}
