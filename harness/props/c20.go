package props

import (
	"bytes"
	"fmt"
	"io"
	"io/ioutil"
	"math"
	"math/rand"
	"os"
	"os/exec"
	"path/filepath"
	"strconv"
	"strings"
	"time"

	wt "github.com/hnakamur/whispertool"
	wcmd "github.com/hnakamur/whispertool/cmd"

	"verifharness/fw"
	"verifharness/model"
)

// C20 generate produces a complete, self-consistent file with the requested layout.

type c20 struct{}

func init() { fw.Register(c20{}) }

func (c20) Meta() fw.Meta {
	return fw.Meta{
		ID: "C20",
		Rule: "case = (layout of 1-4 archives incl. N_fine == ratio and N_fine == ratio+1, maximum in {0,1,7,100,10^6}, fill on/off, generation instant). drivers: (a) the command's own generation path (randomPointsList + updateFileDataWithPointsList through the verif export hook, on a file made by Create, then Sync) at VIRTUAL instants covering every phase class: aligned to each step, +1, step-1, the late phase at which the oldest finer point coincides with the newest coarser interval, instants beyond 2^31; " +
			"(b) the real generate binary inside a stable wall-clock second, launched across a second boundary, or slowed down by strace-injected delays on its page reads (runs that span several seconds must be consistent with ONE generation instant), after WAITING for the late phase when the layout has N_fine == ratio (steps 1-5 s), then a second invocation on the same path. " +
			"oracle (library read at that instant + the harness' byte parser): header == request; without fill every physical slot is all-zero; with fill every slot of every archive's window (now-ret, now] is non-NaN with 0 <= v <= max*step_i/step_0, and every coarser slot whose ratio finer intervals all lie in the finer archive's window equals their sum (exact integers); existing destination => exit != 0 and bytes unchanged. " +
			"non-trivial = filled file with >= 2 archives in which at least one fully covered and one partially covered coarser slot were checked; distinct by (layout, instant, max)." +
			" Also: generate with stdout (text output) on /dev/full - exit 0 only with a complete file; odd cases create from a list used before at another length." +
			" Existing destinations also include all-zero placeholders and an empty file; every 32nd case starts a second generate for a destination the first is still writing." +
			" The file's aggregation method cycles through all six (the sum relation between archives is generate's own).",
		Assumptions: []string{
			"generate's random values are non-negative integers, so sums are exact",
			"CLI instants are wall-clock (phase steered by waiting); all other phases come from the function-level driver",
		},
		Obligations: []string{"function_generations", "cli_generations", "slots_nonnan_checked", "covered_coarser_slots_checked", "partially_covered_coarser_slots", "newest_coarser_slot_fully_covered", "nfine_eq_ratio", "unaligned_instant", "aligned_instant", "nofill_all_zero", "existing_dest_refused", "instant_beyond_2_31", "cli_launches_across_second_boundary", "cli_generations_slowed_by_injected_delays", "exclusive_creation_races", "generations_with_stdout_on_a_full_device", "layout_list_reused_at_another_length", "existing_placeholder_destinations"},
		Workers:     12,
	}
}

func (c20) Cases(tier string) int {
	if tier == "thorough" {
		return 4000
	}
	return 240
}

func c20Layout(r *rand.Rand, idx int) model.Layout {
	var l model.Layout
	l.Method = 1 + idx%6 // the sum relation between the archives is generate's, whatever the file's aggregation method
	l.Xff = []float32{0, 0.5, 1}[r.Intn(3)]
	k := 1 + r.Intn(4)
	step := uint32(1 + r.Intn(5))
	pts := uint32(2 + r.Intn(40))
	for i := 0; i < k; i++ {
		ratio := uint32(2 + r.Intn(6))
		switch (idx + i) % 3 {
		case 0:
			pts = ratio // N_fine == ratio
		case 1:
			pts = ratio + 1
		default:
			if pts < ratio {
				pts = ratio + uint32(r.Intn(10))
			}
		}
		if i == k-1 {
			if pts < 2 {
				pts = 2
			}
		}
		l.Archs = append(l.Archs, model.Arch{Step: step, Points: pts})
		// next archive: retention must grow
		npts := pts/ratio + 1 + uint32(r.Intn(12))
		step *= ratio
		pts = npts
	}
	// repair "points >= ratio" for non-last archives
	for i := 0; i+1 < len(l.Archs); i++ {
		ratio := l.Archs[i+1].Step / l.Archs[i].Step
		if l.Archs[i].Points < ratio {
			l.Archs[i].Points = ratio
		}
		if l.Archs[i+1].Ret() <= l.Archs[i].Ret() {
			l.Archs[i+1].Points = uint32(l.Archs[i].Ret()/int64(l.Archs[i+1].Step)) + 1
		}
	}
	if v, why := model.ValidLayout(l.Archs); v != model.Valid {
		panic("c20Layout invalid: " + why + " " + l.String())
	}
	return l
}

// c20Check applies the oracle to a generated file at instant now.
func c20Check(c *fw.Ctx, path string, l model.Layout, now int64, max int, fill bool, det fw.J) (bool, bool) {
	return c20CheckR(c, path, l, now, max, fill, det, func(key string, d fw.J, msg string) { c.Violationf(key, d, "%s", msg) })
}

// c20CheckR is c20Check with the violation sink made explicit (a dry run collects instead of recording).
func c20CheckR(c *fw.Ctx, path string, l model.Layout, now int64, max int, fill bool, det fw.J, report func(key string, d fw.J, msg string)) (bool, bool) {
	img := readFileOrNil(path)
	want := model.EncodeHeader(l)
	if int64(len(img)) != l.FileSize() || !bytes.Equal(img[:len(want)], want) {
		report("generate-header", det, fmt.Sprintf("generated file does not carry the requested layout/method/xFilesFactor (len %d want %d)", len(img), l.FileSize()))
		return false, false
	}
	_, raw, err := model.ParseFile(img)
	if err != nil {
		report("generate-unparsable", det, fmt.Sprintf("generated file does not parse: %v", err))
		return false, false
	}
	if !fill {
		for ai := range raw {
			for j, s := range raw[ai] {
				if s.T != 0 || s.Bits != 0 {
					det["archive"], det["slot"] = ai, j
					report("nofill-not-empty", det, fmt.Sprintf("generate -fill=false left archive %d slot %d non-empty: %v", ai, j, s))
					return false, false
				}
			}
		}
		c.Count("nofill_all_zero", 1)
		return true, false
	}
	tsl, _, err := fetchArchives(path, -1, 0, now, now)
	if err != nil {
		report("generate-unreadable", det, fmt.Sprintf("generated file unreadable: %v", err))
		return false, false
	}
	vals := make([]map[int64]float64, len(l.Archs))
	for ai, a := range l.Archs {
		ts := tsl[ai]
		vals[ai] = map[int64]float64{}
		bound := float64(max) * float64(a.Step) / float64(l.Archs[0].Step)
		if ts == nil || int64(len(ts.Values())) != int64(a.Points) {
			report("generate-window-shape", det, fmt.Sprintf("archive %d: whole-retention fetch returned %v values, want %d", ai, ts, a.Points))
			return false, false
		}
		for j, v := range ts.Values() {
			t := int64(ts.FromTime()) + int64(j)*int64(ts.Step())
			c.Count("slots_nonnan_checked", 1)
			f := float64(v)
			if math.IsNaN(f) {
				det["archive"], det["t"] = ai, t
				report("fill-left-empty-slot", det, fmt.Sprintf("generate -fill left archive %d slot %d (inside the retention at the generation time %d) empty", ai, t, now))
				return false, false
			}
			if f < 0 || f > bound || f != math.Trunc(f) {
				det["archive"], det["t"], det["value"], det["bound"] = ai, t, f, bound
				report("fill-value-out-of-range", det, fmt.Sprintf("archive %d slot %d holds %v, must be an integer within [0, %v]", ai, t, f, bound))
				return false, false
			}
			vals[ai][t] = f
		}
	}
	full, partial := false, false
	for ai := 1; ai < len(l.Archs); ai++ {
		a, fa := l.Archs[ai], l.Archs[ai-1]
		ratio := int64(a.Step / fa.Step)
		newest := model.AlignDown(now, a.Step)
		for t, v := range vals[ai] {
			sum := 0.0
			covered := true
			for k := int64(0); k < ratio; k++ {
				fv, ok := vals[ai-1][t+k*int64(fa.Step)]
				if !ok {
					covered = false
					break
				}
				sum += fv
			}
			if !covered {
				partial = true
				c.Count("partially_covered_coarser_slots", 1)
				continue
			}
			full = true
			c.Count("covered_coarser_slots_checked", 1)
			if t == newest {
				c.Count("newest_coarser_slot_fully_covered", 1)
			}
			if v != sum {
				det["archive"], det["t"], det["value"], det["finer_sum"] = ai, t, v, sum
				report("coarser-slot-not-sum", det, fmt.Sprintf("archive %d slot %d holds %v but its %d finer slots (all retained) sum to %v", ai, t, v, ratio, sum))
				return false, false
			}
		}
	}
	return full, partial
}

func (c20) Run(c *fw.Ctx) {
	r := c.Rng
	dir := c.TmpDir()
	l := c20Layout(r, c.Index)
	max := []int{0, 1, 7, 100, 1000000}[r.Intn(5)]
	for i := 0; i+1 < len(l.Archs); i++ {
		if l.Archs[i].Points == l.Archs[i+1].Step/l.Archs[i].Step {
			c.Count("nfine_eq_ratio", 1)
		}
	}
	sawFull, sawPartial := false, false
	// ---------------- (a) function level at virtual instants
	base := genClock(r, l)
	var instants []int64
	for _, a := range l.Archs {
		al := model.AlignDown(base, a.Step)
		instants = append(instants, al, al+1, al+int64(a.Step)-1)
	}
	// late phases: finerUntil == newest coarser interval + S_coarse - s_fine
	for i := 0; i+1 < len(l.Archs); i++ {
		cs, fs := int64(l.Archs[i+1].Step), int64(l.Archs[i].Step)
		instants = append(instants, model.AlignDown(base, l.Archs[i+1].Step)+cs-fs, model.AlignDown(base, l.Archs[i+1].Step)+cs-1)
	}
	instants = append(instants, base, int64(1)<<31+int64(r.Intn(100000)))
	for qi, now := range instants {
		if now < l.MaxRet()+2*l.MaxStep() || now+2*l.MaxStep() >= 1<<32 {
			continue
		}
		fill := !(qi == 1 && c.Index%3 == 0)
		path := filepath.Join(dir, fmt.Sprintf("gen-%d.wsp", qi))
		aa := archiveInfoList(l)
		if c.Index%2 == 1 && len(aa) >= 2 {
			// the list was used before at another length (a shorter file generated from the same list)
			if sdb, err := wt.Create(path+".short", aa[:len(aa)-1], wt.AggregationMethod(l.Method), l.Xff); err == nil {
				sdb.Close()
			}
			os.Remove(path + ".short")
			c.Count("layout_list_reused_at_another_length", 1)
		}
		db, err := wt.Create(path, aa, wt.AggregationMethod(l.Method), l.Xff)
		if err != nil {
			c.Violationf("create-failed", fw.J{"layout": l, "err": err.Error()}, "Create failed: %v", err)
			return
		}
		det := fw.J{"layout": l, "instant": now, "max": max, "fill": fill, "driver": "function"}
		if fill {
			rnd := rand.New(rand.NewSource(r.Int63()))
			pl := wcmd.VerifRandomPointsList(db.ArchiveInfoList(), rnd, max, u32(now), u32(now))
			if err := wcmd.VerifUpdateFileDataWithPointsList(db, pl, u32(now)); err != nil {
				c.Violationf("generate-update-error", det, "writing the generated points failed: %v", err)
				db.Close()
				return
			}
		}
		if err := db.Sync(); err != nil {
			panic(err)
		}
		db.Close()
		c.Count("function_generations", 1)
		aligned := true
		for _, a := range l.Archs {
			if now%int64(a.Step) != 0 {
				aligned = false
			}
		}
		if aligned {
			c.Count("aligned_instant", 1)
		} else {
			c.Count("unaligned_instant", 1)
		}
		if now >= 1<<31 {
			c.Count("instant_beyond_2_31", 1)
		}
		f, p := c20Check(c, path, l, now, max, fill, det)
		sawFull, sawPartial = sawFull || f, sawPartial || p
		os.Remove(path)
		if c.Violated() {
			return
		}
	}
	// ---------------- (b) the real binary
	if c.Index%2 == 0 {
		fill := c.Index%6 != 4
		path := filepath.Join(dir, "cli-gen.wsp")
		slowed := c.Index%8 == 6
		if slowed {
			// a multi-page layout generated under strace with a delay injected into every page read (preadv): the page
			// reads of the later archives happen seconds after the command took its generation instant
			l = model.Layout{Archs: []model.Arch{{Step: 1, Points: uint32(600 + r.Intn(200))}, {Step: 5, Points: uint32(350 + r.Intn(100))}, {Step: 30, Points: uint32(300 + r.Intn(50))}}, Method: 2, Xff: 0}
			fill = true
			if _, err := exec.LookPath("strace"); err == nil {
				c.Env.State["cli_wrapper"] = []string{"strace", "-f", "-o", "/dev/null", "-e", "trace=preadv", "-e", "inject=preadv:delay_enter=350000"}
				defer delete(c.Env.State, "cli_wrapper")
				c.Count("cli_generations_slowed_by_injected_delays", 1)
			}
		}
		args := []string{"generate", "-dest", path, "-agg-method", model.MethodNames[l.Method], "-x-files-factor", strconv.FormatFloat(float64(l.Xff), 'g', -1, 32),
			"-retentions", l.RetentionString(), "-max", strconv.Itoa(max), fmt.Sprintf("-fill=%v", fill)}
		// wait for the late phase of the first archive pair with N_fine == ratio (steps are 1-5 s)
		var res cliResult
		os.Remove(path)
		if len(l.Archs) > 1 && l.Archs[0].Points == l.Archs[1].Step/l.Archs[0].Step && l.Archs[1].Step <= 30 {
			cs, fs := int64(l.Archs[1].Step), int64(l.Archs[0].Step)
			for time.Now().Unix()%cs < cs-fs {
				time.Sleep(50 * time.Millisecond)
			}
		}
		lateLaunch := c.Index%4 == 2
		ns := time.Now().Nanosecond()
		if lateLaunch {
			// start the process so that its run straddles a second boundary: the file must still be consistent with
			// ONE generation instant
			target := 985e6 + r.Intn(12e6)
			if ns > target {
				time.Sleep(time.Duration(1e9 - ns))
				ns = 0
			}
			time.Sleep(time.Duration(target - ns))
			c.Count("cli_launches_across_second_boundary", 1)
		} else if ns > 300e6 {
			time.Sleep(time.Duration(1e9-ns) + 5*time.Millisecond)
		}
		res = runCLI(c, args...)
		det := fw.J{"layout": l, "instant": res.T0, "max": max, "fill": fill, "driver": "cli", "run": res.brief()}
		straddled := false
		if res.T0 != res.T1 && res.Exit == 0 && !cliPanicked(res) {
			// the instant is T0..T1: the file must satisfy the oracle for at least one candidate
			var firstKey, firstMsg string
			okAny := false
			for cand := res.T0; cand <= res.T1; cand++ {
				problem := ""
				c20CheckR(c, path, l, cand, max, fill, fw.J{}, func(key string, d fw.J, msg string) {
					if problem == "" {
						problem = key + ": " + msg
						if firstKey == "" {
							firstKey, firstMsg = key, msg
						}
					}
				})
				if problem == "" {
					okAny = true
					break
				}
			}
			c.Count("cli_generations_straddling_a_second", 1)
			if !okAny {
				det["candidates"] = []int64{res.T0, res.T1}
				c.Violationf(firstKey, det, "generate ran across a second boundary (%d..%d) and the file is consistent with NO generation instant in that range: %s", res.T0, res.T1, firstMsg)
				return
			}
			c.Count("cli_generations", 1)
			straddled = true
		}
		if straddled {
			// already judged over the candidate instants
		} else if cliPanicked(res) {
			c.Violationf("panic", det, "generate panicked")
			return
		} else if res.Exit != 0 {
			c.Violationf("generate-failed", det, "generate exited %d: %s", res.Exit, truncStr(res.Stderr, 300))
			return
		} else {
			c.Count("cli_generations", 1)
			f, p := c20Check(c, path, l, res.T0, max, fill, det)
			sawFull, sawPartial = sawFull || f, sawPartial || p
			if c.Violated() {
				return
			}
		}
		before := readFileOrNil(path)
		res2 := runCLI(c, args...)
		after := readFileOrNil(path)
		if res2.Exit == 0 || !bytes.Equal(before, after) {
			c.Violationf("existing-dest-overwritten", fw.J{"run": res2.brief(), "changed": !bytes.Equal(before, after)}, "generate on an existing destination exited %d; file changed: %v", res2.Exit, !bytes.Equal(before, after))
			return
		}
		c.Count("existing_dest_refused", 1)
		// other kinds of existing destinations: an all-zero placeholder of the layout's size, a short all-zero file, an
		// empty file - each exists, so each is refused and left as it is
		for vi, img := range [][]byte{make([]byte, l.FileSize()), make([]byte, 16+r.Intn(4000)), {}} {
			if c.Index%3 != vi {
				continue
			}
			pp := filepath.Join(dir, fmt.Sprintf("placeholder-%d.wsp", vi))
			ioutil.WriteFile(pp, img, 0644)
			pargs := append([]string{}, args...)
			for i := range pargs {
				if pargs[i] == "-dest" {
					pargs[i+1] = pp
				}
			}
			res3 := runCLI(c, pargs...)
			c.Count("existing_placeholder_destinations", 1)
			if res3.Exit == 0 || !bytes.Equal(readFileOrNil(pp), img) {
				c.Violationf("existing-dest-overwritten", fw.J{"run": res3.brief(), "existing_file": fmt.Sprintf("%d zero bytes", len(img))}, "generate on an existing destination (%d zero bytes) exited %d; file changed: %v", len(img), res3.Exit, !bytes.Equal(readFileOrNil(pp), img))
				return
			}
		}
	}
	// ---------------- (d) the text output (stdout) sits on a full device: whatever generate reports, a reported success
	// means a complete file (C20's oracle); a failure is fine
	if c.Index%8 == 1 {
		path := filepath.Join(dir, "devfull-gen.wsp")
		os.Remove(path)
		fill := c.Index%16 == 1
		gl := model.Layout{Archs: []model.Arch{{Step: 1, Points: uint32(300 + r.Intn(500))}, {Step: 60, Points: uint32(20 + r.Intn(30))}}, Method: 2, Xff: 0}
		full, ferr := os.OpenFile("/dev/full", os.O_WRONLY, 0)
		if ferr == nil {
			cmd := exec.Command(cliBin(c), "generate", "-dest", path, "-agg-method", "sum", "-x-files-factor", "0", "-retentions", gl.RetentionString(), "-max", strconv.Itoa(max), fmt.Sprintf("-fill=%v", fill), "-text-out", "-")
			cmd.Stdout = full
			var se bytes.Buffer
			cmd.Stderr = &se
			t0 := time.Now().Unix()
			err := cmd.Run()
			t1 := time.Now().Unix()
			full.Close()
			c.Count("generations_with_stdout_on_a_full_device", 1)
			if strings.Contains(se.String(), "panic:") || strings.Contains(se.String(), "goroutine 1 [") {
				c.Violationf("panic", fw.J{"stderr": truncStr(se.String(), 2000)}, "generate panicked with its text output on a full device")
				return
			}
			if err == nil {
				// success reported: the file must be what generate promises, for one instant of the run
				okAny, firstKey, firstMsg := false, "", ""
				for cand := t0; cand <= t1 && !okAny; cand++ {
					problem := ""
					c20CheckR(c, path, gl, cand, max, fill, fw.J{}, func(key string, d fw.J, msg string) {
						if problem == "" {
							problem = key + ": " + msg
							if firstKey == "" {
								firstKey, firstMsg = key, msg
							}
						}
					})
					okAny = problem == ""
				}
				if !okAny {
					c.Violationf("generate-success-without-complete-file:"+firstKey, fw.J{"layout": gl, "fill": fill, "stderr": truncStr(se.String(), 500), "first_problem": firstMsg},
						"generate with its text output (stdout) on a full device exited 0, but the file is not a complete generated file: %s", firstMsg)
					return
				}
			}
		}
	}
	// ---------------- (c) exclusive creation must hold for the whole run: a competitor creating the destination while
	// generate is still working (it is blocked writing its text output into a pipe nobody reads yet) must either be
	// refused, or generate must fail and leave the competitor's file alone
	if c.Index%16 == 4 {
		path := filepath.Join(dir, "race-gen.wsp")
		big := model.Layout{Archs: []model.Arch{{Step: 1, Points: uint32(3000 + r.Intn(500))}}, Method: 2, Xff: 0}
		cmd := exec.Command(cliBin(c), "generate", "-dest", path, "-agg-method", "sum", "-retentions", big.RetentionString(), "-text-out", "-")
		stdout, err := cmd.StdoutPipe()
		if err == nil && cmd.Start() == nil {
			// wait until the command has produced its file (under whatever name) and is stuck on the pipe
			for i := 0; i < 100; i++ {
				m, _ := filepath.Glob(path + "*")
				if len(m) > 0 {
					break
				}
				time.Sleep(20 * time.Millisecond)
			}
			time.Sleep(300 * time.Millisecond)
			// a second generate for the same destination while the first is still at work (its header is not on disk
			// yet): the destination exists, so the second must refuse - and must not wait to overwrite it later
			var second *exec.Cmd
			secondDone := make(chan error, 1)
			if fileExists(path) && c.Index%32 == 4 {
				second = exec.Command(cliBin(c), "generate", "-dest", path, "-agg-method", "max", "-retentions", "1s:10s", "-text-out", "")
				if second.Start() == nil {
					go func() { secondDone <- second.Wait() }()
					c.Count("second_generate_while_first_at_work", 1)
				} else {
					second = nil
				}
			}
			marker := []byte("competitor content, created with O_EXCL while generate was running")
			competitorWon := false
			if f, err := os.OpenFile(path, os.O_WRONLY|os.O_CREATE|os.O_EXCL, 0644); err == nil {
				f.Write(marker)
				f.Close()
				competitorWon = true
			}
			io.Copy(ioutil.Discard, stdout)
			werr := cmd.Wait()
			c.Count("exclusive_creation_races", 1)
			if second != nil {
				var serr error
				select {
				case serr = <-secondDone:
				case <-time.After(60 * time.Second):
					second.Process.Kill()
					serr = fmt.Errorf("killed after 60 s")
				}
				ph, _, _, perr := rawOfFile(path)
				if serr == nil || (werr == nil && (perr != nil || int(ph.Count) != 1 || ph.Points[0] != big.Archs[0].Points)) {
					c.Violationf("existing-dest-overwritten", fw.J{"second_generate_error": fmt.Sprint(serr), "first_generate_error": fmt.Sprint(werr)},
						"a second generate was started for a destination that another generate was still writing: it exited with %v; the finished file has the first run's layout: %v", serr, perr == nil && ph != nil && ph.Points[0] == big.Archs[0].Points)
					return
				}
			}
			if competitorWon {
				now := readFileOrNil(path)
				if werr == nil || !bytes.Equal(now, marker) {
					c.Violationf("generate-replaced-a-file-created-meanwhile", fw.J{"generate_exit_error": fmt.Sprint(werr), "competitor_file_intact": bytes.Equal(now, marker)},
						"a competitor created the destination exclusively while generate was running; generate still reported success / replaced that file (exclusive creation does not protect the destination)")
					return
				}
			}
		}
	}
	if sawFull && sawPartial {
		c.Nontrivial(l.String(), base, max)
	}
	if c.Index < 64 {
		c.Sample(fw.J{"layout": l.String(), "max": max, "virtual_instants": instants[:minI(len(instants), 6)]})
	}
}
