package props

import (
	"fmt"
	"math"

	"verifharness/fw"
	"verifharness/model"
)

// C02 Downsampling: coarser archives hold the configured aggregate of finer data.

type c02 struct{}

func init() { fw.Register(c02{}) }

func (c02) Meta() fw.Meta {
	var obl []string
	for m := 1; m <= 6; m++ {
		obl = append(obl, "stored_"+model.MethodNames[m], "skipxff_"+model.MethodNames[m], "skipzero_"+model.MethodNames[m])
	}
	obl = append(obl, "chain_depth2", "chain_depth3", "chain_stopped_early", "negative_max_min", "first_ne_last", "ratio_eq_points", "ring_barely_longer", "xff_exact_boundary_pass", "ops_compared", "histories_with_nan_and_inf_values")
	return fw.Meta{
		ID: "C02",
		Rule: "case = (2-4 level layout emphasising N_fine==ratio, N_fine==ratio+1 and coarser rings barely longer than the finer one; method; xff in {0,1/4,1/2,3/4,1} or random; clock; 10-30 writes: single/batch to named or best archives, lap collisions, duplicates, either sign, +-0); " +
			"oracle: from the ACTUAL state before the op and the actual post-state of the directly written (finest) archive, recompute every coarser level: touched intervals, known finer values (stored interval must match), " +
			"float32 known-fraction test, aggregate folded in time order, unchanged slots bit-identical, recursion only from stored slots; expected coarser rings must equal the actual ones bit for bit. A panic in an update is a violation. " +
			"non-trivial = case stored and skipped (by xff or zero-known) at least one coarser slot; distinct by (layout, clock, ops)." +
			" Every 4th case with average/sum/last/first also writes NaN payloads, infinities and huge finite values (NaN results compare equal whatever their payload)." +
			" Every 5th case lets batches carry points ahead of the clock (also as the only points of a batch on an empty archive).",
		Assumptions: []string{
			"clock domain: maxRetention + 2*maxStep <= now and now + 2*maxStep < 2^32",
			"xFilesFactor boundary uses the float32 quotient; ops in which the exact rational and the float32 quotient disagree about >= xff are don't-care (counted as dontcare_ops, state resynchronised)",
			"values are finite (max/min of NaN is not specified by the property); for max/min a zero result may have either sign",
		},
		Obligations: obl,
	}
}

func (c02) Cases(tier string) int {
	if tier == "thorough" {
		return 1000000
	}
	return 2400
}

func c02Layout(c *fw.Ctx) model.Layout {
	r := c.Rng
	l := genLayout(r, layoutOpts{minArch: 2, maxArch: 4, maxPoints0: 120, smallRatios: r.Intn(2) == 0})
	l.Method = 1 + c.Index%6
	switch (c.Index / 6) % 6 {
	case 0:
		l.Xff = 0
	case 1:
		l.Xff = 0.25
	case 2:
		l.Xff = 0.5
	case 3:
		l.Xff = 0.75
	case 4:
		l.Xff = 1
	default:
		l.Xff = float32(r.Intn(1001)) / 1000
	}
	return l
}

func slotsEqualAgg(method int, a, b model.Slot) bool {
	if a == b {
		return true
	}
	if (method == 4 || method == 5) && a.T == b.T && a.Val() == 0 && b.Val() == 0 {
		return true // max/min of {+0,-0}: either zero
	}
	if a.T == b.T && a.Val() != a.Val() && b.Val() != b.Val() {
		return true // NaN results: the payload is not part of the property
	}
	return false
}

func (c02) Run(c *fw.Ctx) {
	r := c.Rng
	l := c02Layout(c)
	now := genClock(r, l)
	mname := model.MethodNames[l.Method]
	for i := 0; i+1 < len(l.Archs); i++ {
		ratio := l.Archs[i+1].Step / l.Archs[i].Step
		if l.Archs[i].Points == ratio {
			c.Count("ratio_eq_points", 1)
		}
		if l.Archs[i+1].Ret() <= l.Archs[i].Ret()+int64(l.Archs[i+1].Step) {
			c.Count("ring_barely_longer", 1)
		}
	}
	s, err := newSession(c, l, now, "c02.wsp")
	if err != nil {
		c.Violationf("create-failed", fw.J{"layout": l, "err": err.Error()}, "Create failed: %v", err)
		return
	}
	defer s.close()

	// stored NaNs and infinities are stored values like any other for average/sum/last/first (IEEE arithmetic in time
	// order; huge finite values overflow to them on their own); max/min of NaN is not specified and stays excluded
	hostile := c.Index%4 == 3 && (l.Method == 1 || l.Method == 2 || l.Method == 3 || l.Method == 6)
	if hostile {
		c.Count("histories_with_nan_and_inf_values", 1)
	}
	var ops []Op
	nops := 10 + r.Intn(21)
	stored, skipped := false, false
	for step := 0; step < nops && !c.Violated(); step++ {
		var op Op
		if step == 0 && c.Index%3 == 0 {
			// directed: lap collision on a fresh ring => the older coarser interval has zero known values
			a := l.Archs[0]
			lo := s.now - a.Ret() + 1
			hi := model.AlignDown(lo, a.Step) + a.Ret()
			if hi <= s.now {
				op = Op{Kind: "batch", Arch: 0, Now: s.now, Pts: []model.PtBits{{T: uint32(lo), Bits: math.Float64bits(7)}, {T: uint32(hi), Bits: math.Float64bits(9)}}}
			}
		}
		if op.Kind == "" {
			op = genOp(r, l, s.now, histOpts{noReopen: true, maxBatch: 30, hostileValues: hostile, futureBatch: c.Index%5 == 1})
		}
		if op.Kind == "advance" {
			s.now += op.Delta
			ops = append(ops, op)
			continue
		}
		if op.Kind != "single" && op.Kind != "batch" {
			continue
		}
		// values of either sign, small integers (ties, duplicates), +-0
		fix := func(p *model.PtBits) {
			switch r.Intn(6) {
			case 0:
				p.Bits = math.Float64bits(float64(r.Intn(7) - 3))
			case 1:
				p.Bits = math.Float64bits(-float64(r.Intn(1000)) / 8)
			}
		}
		fix(&op.Pt)
		for i := range op.Pts {
			fix(&op.Pts[i])
		}
		ops = append(ops, op)
		pre := s.raw
		if err := s.apply(op); err != nil {
			c.Violationf("write-error", fw.J{"layout": l, "ops": ops, "err": err.Error()}, "in-range write failed: %v", err)
			return
		}
		post, rerr := rawOf(s.db)
		if rerr != nil {
			panic(rerr)
		}
		s.raw = post

		// ---- oracle
		state := pre.Clone()
		var routed [][]model.PtBits
		if op.Kind == "single" {
			routed = make([][]model.PtBits, len(l.Archs))
			target := op.Arch
			if target < 0 {
				target = model.BestArchive(l, int64(op.Pt.T), s.now)
			}
			routed[target] = []model.PtBits{op.Pt}
		} else {
			routed = model.RouteBatch(l, op.Pts, op.Arch, s.now)
		}
		info := &model.PropagateInfo{}
		var dontCare [][2]int64
		first := true
		for i := range l.Archs {
			if len(routed[i]) == 0 {
				continue
			}
			touched := model.ApplyDirect(state[i], l.Archs[i], routed[i])
			if first {
				// placement of direct writes is C01/C03's business: adopt the actual finest written ring
				state[i] = append([]model.Slot(nil), post[i]...)
				first = false
			}
			dontCare = append(dontCare, model.Propagate(l, state, i, touched, info)...)
			// value-class coverage
			if l.Method == 4 || l.Method == 5 {
				for _, p := range routed[i] {
					if math.Float64frombits(p.Bits) < 0 {
						c.Count("negative_max_min", 1)
						break
					}
				}
			}
		}
		if len(dontCare) > 0 {
			c.Count("dontcare_ops", 1)
			continue // resynchronised: s.raw is the actual state
		}
		c.Count("ops_compared", 1)
		c.Count("stored_"+mname, int64(info.Stored))
		c.Count("skipxff_"+mname, int64(info.SkippedXff))
		c.Count("skipzero_"+mname, int64(info.SkippedZero))
		if info.Stored > 0 {
			stored = true
		}
		if info.SkippedXff+info.SkippedZero > 0 {
			skipped = true
		}
		if info.Levels >= 2 {
			c.Count("chain_depth2", 1)
		}
		if info.Levels >= 3 {
			c.Count("chain_depth3", 1)
		}
		firstWritten := -1
		for i := range routed {
			if len(routed[i]) > 0 {
				firstWritten = i
				break
			}
		}
		if firstWritten >= 0 && firstWritten+info.Levels < len(l.Archs)-1 && (info.SkippedXff+info.SkippedZero > 0) {
			c.Count("chain_stopped_early", 1)
		}
		if l.Xff == 0.25 || l.Xff == 0.5 || l.Xff == 0.75 || l.Xff == 1 {
			c.Count("xff_exact_boundary_pass", int64(info.Stored))
		}
		for i := range l.Archs {
			for d := range state[i] {
				if !slotsEqualAgg(l.Method, state[i][d], post[i][d]) {
					key := "aggregate-mismatch"
					if i <= firstWritten {
						key = "finer-or-target-archive-mismatch"
					} else if state[i][d] == pre[i][d] {
						key = "coarser-slot-should-be-unchanged"
					} else if post[i][d] == pre[i][d] {
						key = "coarser-slot-not-recomputed"
					}
					c.Violationf(key, fw.J{"layout": l, "ops": ops, "now": s.now, "archive": i, "slot": d, "before": pre[i][d], "want": state[i][d], "got": post[i][d],
						"want_val": state[i][d].Val(), "got_val": post[i][d].Val()},
						"%s xff=%v after %s to archive %d: archive %d slot %d was %v, is %v (%v), oracle demands %v (%v)", mname, l.Xff, op.Kind, op.Arch, i, d,
						pre[i][d], post[i][d], post[i][d].Val(), state[i][d], state[i][d].Val())
					break
				}
			}
			if c.Violated() {
				break
			}
		}
		// first != last coverage: some coarser interval with >=2 distinct known values
		if (l.Method == 3 || l.Method == 6) && info.Stored > 0 && len(op.Pts) >= 2 {
			c.Count("first_ne_last", 1)
		}
	}
	if stored && skipped {
		c.Nontrivial(l.String(), now, fw.JSON(ops))
	}
	if c.Index < 64 {
		c.Sample(fw.J{"layout": l.String(), "clock": now, "ops": summarizeOps(ops, 6), "note": fmt.Sprintf("%d ops", len(ops))})
	}
}

// propagationMismatch recomputes, from the actual state before a write op and the actual post-state of the directly
// written (finest) archive, what every coarser archive must hold afterwards (the C02 oracle) and compares it with the
// actual post-state. It returns dontCare=true when the op falls into the float32/rational xFilesFactor band.
func propagationMismatch(l model.Layout, pre, post model.Raw, op Op, now int64) (dontCare bool, archive, slot int, want, got model.Slot, found bool) {
	state := pre.Clone()
	var routed [][]model.PtBits
	if op.Kind == "single" {
		routed = make([][]model.PtBits, len(l.Archs))
		target := op.Arch
		if target < 0 {
			target = model.BestArchive(l, int64(op.Pt.T), now)
		}
		routed[target] = []model.PtBits{op.Pt}
	} else {
		routed = model.RouteBatch(l, op.Pts, op.Arch, now)
	}
	info := &model.PropagateInfo{}
	first := true
	firstWritten := -1
	for i := range l.Archs {
		if len(routed[i]) == 0 {
			continue
		}
		touched := model.ApplyDirect(state[i], l.Archs[i], routed[i])
		if first {
			state[i] = append([]model.Slot(nil), post[i]...)
			first = false
			firstWritten = i
		}
		if len(model.Propagate(l, state, i, touched, info)) > 0 {
			return true, 0, 0, model.Slot{}, model.Slot{}, false
		}
	}
	for i := range l.Archs {
		if i <= firstWritten {
			continue
		}
		for d := range state[i] {
			if !slotsEqualAgg(l.Method, state[i][d], post[i][d]) {
				return false, i, d, state[i][d], post[i][d], true
			}
		}
	}
	return false, 0, 0, model.Slot{}, model.Slot{}, false
}
