#!/bin/bash
# Runs every check's quick tier at several PRNG seeds and reports anything that is not exit 0.
#   tools/sweep.sh [seeds...]      default seeds: 1 2 3 7 42
cd "$(dirname "$0")/.."
SEEDS=${@:-1 2 3 7 42}
fail=0
for s in $SEEDS; do
  for n in $(seq -w 1 20); do
    id=C$n
    out=$(VERIF_SEED=$s ./check $id quick 2>&1); code=$?
    if [ $code -ne 0 ]; then
      fail=1
      echo "SWEEP-FAIL seed=$s $id exit=$code"
      echo "$out" | grep -E "witness|VIOLATION|INCONCLUSIVE|BUILD" | head -6 | cut -c1-400
    fi
  done
  echo "seed $s done"
done
[ $fail = 0 ] && echo "SWEEP CLEAN"
