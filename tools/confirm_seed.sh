#!/bin/bash
# Confirms one seeded change: the repository suite passes with it, the demonstration fails with it
# and passes without it. Usage: confirm_seed.sh <Cxx> <k> [patchfile]   (artifacts in /tmp/seed/<Cxx>/_seed)
set -u
ID=$1; K=$2
S=${SEEDSRC:-/tmp/seed}/$ID/_seed
PATCH=${3:-$S/patch$K.diff}
DEMO=$S/demo${K}_test.go
export GOFLAGS=-mod=mod GOPROXY=off GOSUMDB=off GOTOOLCHAIN=local
WT=/tmp/confirm/$ID-$K
mkdir -p /tmp/confirm
git -C /repo worktree add -q --detach "$WT" HEAD || exit 2
trap 'git -C /repo worktree remove --force "$WT" 2>/dev/null' EXIT
cd "$WT"
if ! git apply "$PATCH" 2>/dev/null; then echo "$ID-$K RESULT=patch-does-not-apply"; exit 0; fi
if [ ! -f "$DEMO" ] && [ -f "$S/demo$K/main.go" ]; then
  # stand-alone demonstration program (exit status non-zero on failure)
  suite=fail
  for try in 1 2 3; do
    if go test -p 4 -vet=off -count=1 ./... >"$WT/.suite.log" 2>&1; then suite=pass; break; fi
    sleep 7
  done
  mkdir -p _seeddemo && cp -r "$S/demo$K" _seeddemo/
  if timeout 300 go run ./_seeddemo/demo$K >"$WT/.demo_with.log" 2>&1; then with=pass; else with=fail; fi
  git checkout -q -- .
  if timeout 300 go run ./_seeddemo/demo$K >"$WT/.demo_without.log" 2>&1; then without=pass; else without=fail; fi
  rm -rf _seeddemo
  echo "$ID-$K RESULT suite_with_patch=$suite demo_with_patch=$with demo_without_patch=$without dir=program tests=main"
  [ "$without" = fail ] && tail -15 "$WT/.demo_without.log"
  exit 0
fi
pkg=$(grep -m1 '^package ' "$DEMO" | awk '{print $2}')
case "$pkg" in
  cmd|cmd_test) dir=cmd;;
  compattest|compattest_test) dir=internal/compattest;;
  *) dir=.;;
esac
suite=fail
for try in 1 2 3; do
  if go test -p 4 -vet=off -count=1 ./... >"$WT/.suite.log" 2>&1; then suite=pass; break; fi
  sleep 7
done
cp "$DEMO" "$dir/zz_seed_demo_test.go"
runre=$(grep -o 'func Test[A-Za-z0-9_]*' "$DEMO" | sed 's/func //' | paste -sd'|')
if go test ${DEMO_RACE:+-race} -vet=off -count=1 -run "^($runre)\$" ./$dir >"$WT/.demo_with.log" 2>&1; then with=pass; else with=fail; fi
rm "$dir/zz_seed_demo_test.go"
git checkout -q -- .
cp "$DEMO" "$dir/zz_seed_demo_test.go"
if go test ${DEMO_RACE:+-race} -vet=off -count=1 -run "^($runre)\$" ./$dir >"$WT/.demo_without.log" 2>&1; then without=pass; else without=fail; fi
rm "$dir/zz_seed_demo_test.go"
echo "$ID-$K RESULT suite_with_patch=$suite demo_with_patch=$with demo_without_patch=$without dir=$dir tests=$runre"
if [ "$without" = fail ]; then tail -15 "$WT/.demo_without.log"; fi
if [ "$suite" = fail ]; then grep -E "^(--- FAIL|FAIL|ok)" "$WT/.suite.log" | head; fi
