#!/bin/bash
# Runs checks against every archived seeded change (on scratch worktrees, never /repo itself).
#   tools/seed_matrix.sh own            each seed against its own property's quick check
#   tools/seed_matrix.sh all            each seed against every check (slow)
#   tools/seed_matrix.sh own C05-1 ...  selected seeds
MODE=${1:-own}; shift
cd "$(dirname "$0")/.."
SEEDS=${@:-$(ls seeded)}
run_one() { # seed check
  local seed=$1 id=$2
  local out
  out=$(tools/runmut.sh seeded/$seed/patch.diff $id quick "$seed-$id" 2>&1)
  local code=$(echo "$out" | grep -o 'exit=[0-9]*' | tail -1)
  local keys=$(echo "$out" | grep -o 'witness key=[^ ]*' | sed 's/witness key=//' | sort -u | head -4 | paste -sd, )
  echo "$seed $id $code $keys"
}
export -f run_one
for s in $SEEDS; do
  own=${s%-*}
  if [ "$MODE" = own ]; then echo "$s $own"; else for n in $(seq -w 1 20); do echo "$s C$n"; done; fi
done | xargs -P ${MATRIX_PAR:-3} -L 1 bash -c 'run_one $0 $1'
