#!/bin/bash
# Development aid: run a check against a scratch worktree of /repo carrying a seeded patch.
#   tools/runmut.sh <patch.diff> <Cxx> [tier] [worktree-slot]
# The worktree lives under /tmp/mutwt/<slot> and is removed afterwards.
set -u
HERE=$(cd "$(dirname "$0")/.." && pwd)
PATCH=$(readlink -f "$1"); ID=$2; TIER=${3:-quick}; SLOT=${4:-$$}
WT=/tmp/mutwt/$SLOT
mkdir -p /tmp/mutwt
git -C /repo worktree add -q --detach "$WT" HEAD || exit 2
trap 'git -C /repo worktree remove --force "$WT" 2>/dev/null; rm -rf $HERE/.build/alt-$(echo "$WT" | md5sum | cut -c1-10)' EXIT
if ! git -C "$WT" apply "$PATCH"; then echo "PATCH DOES NOT APPLY"; exit 2; fi
cd "$HERE" && VERIF_REPO="$WT" ./check "$ID" "$TIER" 2>&1 | grep -E '^(VIOLATION|HELD|INCONCLUSIVE|KNOWN|BUILD|  witness|C[0-9]+ )' | cut -c1-400 | head -12
echo "exit=${PIPESTATUS[0]}"
