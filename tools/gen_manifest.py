#!/usr/bin/env python3
"""Regenerates /verif/MANIFEST.json from the table below (kept in one place so the
manifest stays valid while checks are added)."""
import json, os, subprocess

HERE = os.path.dirname(os.path.dirname(os.path.abspath(__file__)))

# id -> (technique, level text, level note, design ref)
CHECKS = {
 "C01": ("lock-step reference-model monitor over generated write/clock/reopen histories (raw-slot oracle after every operation)",
         "Exploration: thousands of generated (layout, clock, history) cases; after every operation every archive is fetched through many windows and each returned value is compared bit-exactly with the physical slot the ring rule addresses; each direct write must change exactly the addressed slot. Held on what was explored; coverage obligations (stale laps, ring-end crossings, page-straddling slots, rings of 1-2 slots, distances beyond 2^31 s) are measured and must be non-zero.",
         "Trusts: the harness' ring model (floor_mod addressing written from the statement), GetAllRawUnsortedPoints as state probe (cross-checked against the file bytes at every sync). Clock domain maxRet+2*maxStep <= now, now+2*maxStep < 2^32.", "2/C01"),
 "C02": ("propagation oracle recomputed from the actual pre-state after every write (bit-exact comparison of all coarser rings)",
         "Exploration: generated multi-level layouts x six methods x xff classes x write histories; after each write every coarser ring must equal, bit for bit, the level-by-level recomputation from the state actually on record before the write; panics are violations.",
         "Float32 known-fraction test as anchored by the property; ops where float32 and exact rational disagree are don't-care. Finite values only.", "2/C02"),
 "C03": ("acceptance/routing oracle over boundary ages and permuted twin batches",
         "Exploration: single updates at every retention boundary (+-1) to best and named archives, batches mixing in-range/boundary/too-old points with duplicates and lap collisions, each batch replayed in a different supply order on a byte-identical twin file; acceptance, placement and order-independence are decided exactly from the raw rings.",
         "'Supplied last' = greatest (timestamp, supply index); future-dated batch points not generated.", "2/C03"),
 "C04": ("closed-form fetch-shape oracle over id x window x clock x content classes",
         "Exploration: every archive id incl. out-of-range and best x ~70 windows per id (all edge combinations) x three content states (never written / all written / partly written); result shape compared with a closed-form function of layout, window and clock, and across content states.",
         "Clock domain as C01; Fetch() wrapper driven through whispertool.Now.", "2/C04"),
 "C05": ("byte-level file monitor between Syncs + observer handle + abandonment replay + SIGKILLed child process + failing CLI copy",
         "Exploration with fault injection at the client boundary: the file's bytes are compared with the last synced image after every operation; an independent handle must read what the live handle reads after each Sync; handles are dropped without Sync at sampled prefixes; a child process running the history is SIGKILLed at uncoordinated points; the real copy command is made to fail before its final Sync.",
         "Visibility to other readers, not power-loss durability. Kills inside a Sync are not judged.", "2/C05"),
 "C06": ("independent byte-level format parser at quiescent points + differential reading with go-whisper on a shared virtual clock",
         "Exploration: files written by whispertool, by go-whisper, and alternately by both (incl. multi-year idle gaps); after every session the bytes are checked against the format's invariants by an independent parser, and both readers must agree on metadata and on ~25 non-degenerate windows.",
         "go-whisper (version pinned by the repo) is the reference; degenerate windows excluded as in the property.", "2/C06"),
 "C07": ("validity predicate written from the statement vs. every entry point (library, decoder, Open, retention parser, real CLI flags)",
         "Exploration: candidates valid, broken in exactly one rule at its boundary, overflowing 32-bit fields, methods 0..9, xFilesFactor bit patterns; all entry points must agree with the predicate; accepted layouts are created, synced, reopened and compared with the bytes on disk.",
         "Lists whose offsets fit 32 bits but whose total size does not are a don't-care band. CLI agreement sampled.", "2/C07"),
 "C14": ("round-trip, framing and every-proper-prefix monitor over generated encodable objects",
         "Exploration: generated objects of all message kinds over float64/uint32 bit-pattern classes; decode(encode(x)) bit-equal, remainder aliasing, concatenation sequences, and for every proper prefix the want-larger-buffer protocol (size in (len, full], retry terminates).",
         "Encodable domain: series with len(values) == (until-from)/step or the absent series; headers accepted by NewHeader.", "2/C14"),
 "C15": ("hostile-input monitor: recovered panics, worker deaths under RLIMIT_AS, per-call TotalAlloc deltas, call watchdog",
         "Exploration: random/mutated/extreme-count inputs to all decoders, to the HTTP client framing loops (stub server) and to Open; every operation on handles that opened on damaged files; verdict from panics, process deaths, allocation deltas against input-proportional bounds and a 30 s per-call watchdog.",
         "Allocation measured via runtime.MemStats.TotalAlloc around single-goroutine calls; address space capped at 6 GiB.", "2/C15"),
 "C08": ("effect oracle over the real copy binary: library fetches of source and destination at the clock the command printed",
         "Exploration: generated source/destination states (absent, never written, equal, finer perturbed while coarser agree, unrelated) x windows x archive selections x NaN modes x single/glob; after exit 0 every selected slot of the destination must hold the source's value; source unchanged; absent destination created with the requested header even when nothing is copied; layout mismatch writes nothing; repetition is a no-op; diff afterwards is clean.",
         "Oracle evaluated at the command's own printed clock; numeric value equality (+0 == -0).", "2/C08"),
 "C09": ("difference-set oracle over the real diff binary (records parsed back bit-exactly), incl. one side served by the real server",
         "Exploration: pairs that are identical / same content / perturbed / special values (ulp apart, signed zero, NaN payloads, Inf) / unrelated, missing sides, layout mismatch, globs, windows and archive selections; verdict and the printed records must equal the independently computed difference set; symmetry judged when both runs printed the same clock.",
         "Oracle at the printed clock; glob patterns matching nothing on the source side not judged.", "2/C09"),
 "C10": ("independent slot-wise NaN-skipping sum vs. the sum read path (export hook, virtual clocks) and the real sum binary",
         "Exploration: item trees with exact-addition values and adversarial hole patterns (first file has the hole, single contributor, nobody), windows incl. retention edges, archive selections, unclean base-directory spellings, patterns matching nothing, a file with another layout.",
         "Values chosen so that addition is exact in any order.", "2/C10"),
 "C11": ("effect oracle for sum-copy (destination == independent sum) + perturbation oracle for sum-diff through the real binaries",
         "Exploration: C10 trees x destination states x windows x archive selections; after sum-copy the destination equals the independently computed sum (NaN included); sum-diff is clean; after perturbing one item's destination with the library, sum-diff must list exactly the deviating slots and exit 1 even when the deviating item is not the last one.",
         "Oracle at the per-item printed clock.", "2/C11"),
 "C12": ("differential monitor: every read path executed against the directory and against a real server child process serving it",
         "Exploration through real HTTP round trips: the commands' own read functions (export hook) at virtual clocks for ~60 requests per case (all archive selections, windows, missing/corrupt files, escaped names, bad patterns) and the real binary (view, view-raw, sum, diff either side, sum-diff, copy) with local and remote run inside one wall-clock second; success/failure, not-exist classification, results and outputs must coincide.",
         "nil series == empty zero series; error wording not compared.", "2/C12"),
 "C13": ("session-history monitor: mutual-exclusion intervals on CLOCK_MONOTONIC across goroutines and processes, generation-stamp uniformity, porcupine linearizability check, flock/descriptor probes after failed Open/Create, race detector",
         "Exploration of schedules: writer/reader sessions with injected sleeps between client-boundary steps, in-process and cross-process; verdict from recorded events (interval overlap, lost updates, torn reads, porcupine on an integer-register model) and from non-blocking flock probes with GC disabled after every failure mode of Open/Create.",
         "Only schedules actually produced are covered; contention is measured and required.", "2/C13"),
 "C16": ("fault-injection product over the real binary with an exit-code / effect oracle",
         "Fault enumeration at the process boundary (thorough tier = the whole product, quick tier = every (subcommand, fault) and (subcommand, archive selection) pair): subcommand x archive selection x window x environment fault (unopenable/unwritable/full text-out, missing/garbage/truncated source, read-only or impossible destination, layout mismatch (also of a destination the command creates), missing destination, page writes failing with ENOSPC, a server source whose pattern matches nothing, an item pattern matching only non-directories, a header naming an unstorable method, an archive count beyond a page; plus the fault-free columns: 70-110 slow sources, glob copy over many files, never-written sources, coarser-equal/finer-differs destination) x text-out mode; no panic text, no abnormal termination, success only with observable work, every fault reported by a non-zero exit.",
         "Runs as root and drops the child to uid 65534 for permission faults.", "2/C16"),
 "C17": ("Go race detector in harness, CLI and server processes + concurrent-vs-sequential result equality",
         "Exploration of schedules under the race detector: many goroutines on one cold handle, the sum read path with forced out-of-order completion, the -race server under 8-64 parallel clients over all endpoints; every concurrent result compared bit-exactly with the same request executed alone; every race report is a violation.",
         "Races are only seen in executed schedules; in-flight overlap is measured.", "2/C17"),
 "C18": ("text-output parser vs. library fetch and the harness' own byte-level slot parse, inside a stable wall-clock second",
         "Exploration: files with 17-digit, huge/tiny, infinite, NaN, signed-zero values, stale laps, never-written archives; view/view-raw with archive selections, windows incl. from==until unaligned to coarser steps, header and sort switches; every record parsed back and compared bit-exactly; cross relation view => view-raw.",
         "Stable-second technique for the wall clock; discarded runs counted.", "2/C18"),
 "C20": ("oracle over files produced by the command's own generation path at virtual instants (export hook) and by the real generate binary at awaited wall-clock phases",
         "Exploration: layouts incl. N_fine == ratio, maxima, fill on/off, instants aligned/unaligned to every step, the late phase where the oldest finer point meets the newest coarser interval, instants beyond 2^31; header, emptiness, value range, and coarser == sum of fully retained finer slots are checked exactly.",
         "CLI instants are wall clock (phase awaited); other phases from the function-level driver.", "2/C20"),
 "C19": ("exhaustive round-trip enumeration (thorough) + arithmetic-meaning oracle over enumerated and boundary strings",
         "Quick: boundaries and millions of random round trips plus all strings up to length 4 over the parsers' alphabet. Thorough: ALL 2^31 durations and ALL 2^32 timestamps round-tripped (exhaustive for those two domains), all strings up to length 5; accepted strings must carry their exact arithmetic meaning (big integers / days-from-civil), must-reject classes must be rejected.",
         "Strings in neither class (redundant leading zeros, fractional seconds) are not judged for acceptance.", "2/C19"),
}

PENDING_REASON = "check not built yet in this revision (planned in DESIGN.md section 2; runtime monitoring applies)"

def main():
    props = [json.loads(l) for l in open(os.path.join(HERE, "properties.jsonl"))]
    hook_commits = []
    try:
        out = subprocess.check_output(["git", "-C", "/repo", "log", "--format=%H %s"], text=True)
        hook_commits = [l.split()[0] for l in out.splitlines() if "verif hook" in l]
    except Exception:
        pass
    checks, na = [], []
    for p in props:
        pid = p["id"]
        if pid in CHECKS:
            tech, text, note, ref = CHECKS[pid]
            checks.append({
                "property_id": pid,
                "quick_cmd": "./check %s quick" % pid,
                "thorough_cmd": "./check %s thorough" % pid,
                "evidence_file": "evidence/%s.json" % pid,
                "replay_cmd_template": "./check %s --replay {path}" % pid,
                "engine": "vcheck",
                "level_claimed": {"category": "fault_enumeration" if pid == "C16" else "exploration", "text": text, "design_ref": "DESIGN.md section " + ref},
                "level_note": note,
                "technique": "runtime monitoring: " + tech,
            })
        else:
            na.append({"property_id": pid, "reason": PENDING_REASON})
    m = {
        "version": 1,
        "setup_cmd": "./check --setup",
        "hooks": {
            "guard": "verif",
            "enable": "go build -tags verif (done by ./check for the harness binary vcheck and for cmd/whispertool)",
            "baseline_off_cmd": "cd /repo && GOFLAGS=-mod=mod GOPROXY=off GOSUMDB=off GOTOOLCHAIN=local go test -vet=off -count=1 ./...",
            "source_commits": hook_commits,
            "add_only": True,
        },
        "engines": [{
            "name": "vcheck",
            "path": "harness/cmd/vcheck (Go module verifharness, replace github.com/hnakamur/whispertool => /repo)",
            "serves_properties": sorted(CHECKS.keys()),
            "kind_free_text": "runtime monitoring driver: parent plans cases from (VERIF_SEED, index), worker processes execute the real code under generated workloads, monitors/oracles in harness/model and harness/props decide; race detector build of the harness workers and of the CLI for C13/C17, of the CLI only for a sample of C18's view runs",
        }],
        "checks": checks,
        "notes": "Technique family: runtime monitoring and sanitizers. Exit codes: 0 held on everything explored, 1 + VIOLATION line, 3 + INCONCLUSIVE line when a coverage obligation was not met. Known findings: known_findings.json - 21 'fixed' entries (20 fix: commits in /repo; they suppress nothing) and 3 'known' entries for C16 (copy / sum-copy / generate exit 0 when every page write to the destination fails with ENOSPC: the filebuffer dependency swallows write errors; printed as KNOWN-FINDING lines, exit 0). See DESIGN.md sections 4 and 5.",
        "not_applicable": na,
    }
    json.dump(m, open(os.path.join(HERE, "MANIFEST.json"), "w"), indent=1)
    print("checks:", len(checks), "pending:", len(na))

if __name__ == "__main__":
    main()
