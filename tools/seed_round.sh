#!/bin/bash
# Processes the deliverables of a seeding sub-agent: confirm each mutant, archive the confirmed ones as
# seeded/<id>-<n> and run the property's quick check against them.
#   tools/seed_round.sh <srcdir> <Cxx> [Cxx...]      e.g. tools/seed_round.sh /tmp/seed2 C07 C03
cd /verif
SRC=$1; shift
for ID in "$@"; do
  for K in 1 2 3 4; do
    [ -f $SRC/$ID/_seed/patch$K.diff ] || continue
    [ -n "${ONLYK:-}" ] && [ "$K" != "$ONLYK" ] && continue
    res=$(SEEDSRC=$SRC tools/confirm_seed.sh $ID $K 2>&1 | grep RESULT)
    echo "$res"
    case "$res" in
      *"suite_with_patch=pass demo_with_patch=fail demo_without_patch=pass"*) ;;
      *) echo "  NOT CONFIRMED, skipped"; continue;;
    esac
    n=1; while [ -d seeded/$ID-$n ]; do n=$((n+1)); done
    d=seeded/$ID-$n; mkdir -p $d
    cp $SRC/$ID/_seed/patch$K.diff $d/patch.diff
    if [ -f $SRC/$ID/_seed/demo${K}_test.go ]; then cp $SRC/$ID/_seed/demo${K}_test.go $d/demo_test.go.txt; else cp $SRC/$ID/_seed/demo$K/main.go $d/demo_main.go.txt; fi
    [ -f $SRC/$ID/_seed/notes$K.md ] && cp $SRC/$ID/_seed/notes$K.md $d/notes.md
    pkg=$(grep -m1 '^package ' $d/demo_*.go.txt | awk '{print $2}')
    dir=.; case "$pkg" in cmd|cmd_test) dir=cmd;; compattest|compattest_test) dir=internal/compattest;; esac
    out=$(tools/seed_matrix.sh own $ID-$n)
    echo "  $out"
    code=$(echo "$out" | awk '{print $3}'); keys=$(echo "$out" | awk '{print $4}')
    python3 - "$d" "$ID" "$dir" "$code" "$keys" "$SRC" "$K" <<'PY'
import json,sys
d,pid,dir_,code,keys,src,k=sys.argv[1:8]
json.dump({'property':pid,'origin':'independent sub-agent (round '+__import__('os').environ.get('ROUND','4')+') given only the property text, a scratch worktree and the list of ideas already used','source':'%s/%s/_seed/patch%s.diff'%(src,pid,k),
 'demo_package_dir':dir_,'demo_file':'demo_test.go.txt (copy as zz_seed_demo_test.go into demo_package_dir and run go test -run on its Test functions)',
 'confirmed':'tools/confirm_seed.sh: repository suite passes with the patch; demo fails with the patch; demo passes without it',
 'needs_to_manifest':'see notes.md','ran':'tools/seed_matrix.sh own (quick tier of the own property on a scratch worktree)',
 'detected_by_own_check_quick':code=='exit=1','witness_keys':keys.split(',') if keys else []},open(d+'/meta.json','w'),indent=1)
PY
  done
done
