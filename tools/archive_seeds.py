#!/usr/bin/env python3
"""Copies the confirmed seeded changes into /verif/seeded/<id>-<k>/ (patch.diff, demo, notes, meta.json)."""
import json, os, shutil, subprocess, sys, re
SRC='/tmp/seed'
for n in range(1,21):
    pid='C%02d'%n
    for k in (1,2):
        s=os.path.join(SRC,pid,'_seed')
        patch=os.path.join(s,'patch%d.diff'%k)
        if pid=='C06' and k==1: patch=os.path.join(s,'patch1.rebased.diff')
        if not os.path.exists(patch): continue
        d='/verif/seeded/%s-%d'%(pid,k)
        os.makedirs(d,exist_ok=True)
        shutil.copy(patch,os.path.join(d,'patch.diff'))
        demo=os.path.join(s,'demo%d_test.go'%k)
        shutil.copy(demo,os.path.join(d,'demo_test.go.txt'))
        notes=os.path.join(s,'notes%d.md'%k)
        if os.path.exists(notes): shutil.copy(notes,os.path.join(d,'notes.md'))
        pkg=re.search(r'^package (\S+)',open(demo).read(),re.M).group(1)
        meta={'property':pid,'origin':'independent sub-agent given only the property text and a scratch worktree',
              'demo_package_dir':'cmd' if pkg in('cmd','cmd_test') else '.',
              'demo_file':'demo_test.go.txt (copy as zz_seed_demo_test.go into demo_package_dir and run go test -run on its Test functions)',
              'confirmed':'tools/confirm_seed.sh: repository suite passes with the patch; demo fails with the patch; demo passes without it',
              'apply':'git -C /repo apply seeded/%s-%d/patch.diff ; undo: git -C /repo checkout -- .'%(pid,k)}
        if pid=='C06' and k==1: meta['note']='rebased by hand onto the tree after fix 289ab10 (pointIndex int64); same defect: int32 byte distance overflows beyond 178,956,970 points from the first slot'
        json.dump(meta,open(os.path.join(d,'meta.json'),'w'),indent=1)
print('archived')
